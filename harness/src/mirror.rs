//! Field-for-field mirrors of crate-private serializable types, converted through their
//! canonical (uncompressed) serialization.
use crate::schemes::MtParams;
use ark_crypto_primitives::merkle_tree::Path;
use ark_ff::PrimeField;
use ark_serialize::{CanonicalDeserialize, CanonicalSerialize, Compress, Validate};

pub fn convert<A: CanonicalSerialize, B: CanonicalDeserialize>(a: &A) -> Result<B, String> {
    let mut bytes = Vec::new();
    a.serialize_with_mode(&mut bytes, Compress::No).map_err(|e| format!("{:?}", e))?;
    let mut rd = &bytes[..];
    let b = B::deserialize_with_mode(&mut rd, Compress::No, Validate::No).map_err(|e| format!("{:?}", e))?;
    if !rd.is_empty() {
        return Err(format!("{} trailing bytes after mirror decode", rd.len()));
    }
    Ok(b)
}

#[derive(CanonicalSerialize, CanonicalDeserialize, Clone, Debug, PartialEq, Eq)]
pub struct MMetadata {
    pub n_rows: usize,
    pub n_cols: usize,
    pub n_ext_cols: usize,
}

#[derive(CanonicalSerialize, CanonicalDeserialize, Clone, Debug, PartialEq, Eq)]
pub struct MLinCommitment {
    pub metadata: MMetadata,
    pub root: Vec<u8>,
}

#[derive(CanonicalSerialize, CanonicalDeserialize, Clone)]
pub struct MProofSingle<F: PrimeField> {
    pub paths: Vec<Path<MtParams>>,
    pub v: Vec<F>,
    pub columns: Vec<Vec<F>>,
}

#[derive(CanonicalSerialize, CanonicalDeserialize, Clone)]
pub struct MLinProof<F: PrimeField> {
    pub opening: MProofSingle<F>,
    pub well_formedness: Option<Vec<F>>,
}

#[derive(CanonicalSerialize, CanonicalDeserialize, Clone, Debug)]
pub struct MMatrix<F: PrimeField> {
    pub n: usize,
    pub m: usize,
    pub entries: Vec<Vec<F>>,
}

#[derive(CanonicalSerialize, CanonicalDeserialize, Clone)]
pub struct MLinState<F: PrimeField> {
    pub mat: MMatrix<F>,
    pub ext_mat: MMatrix<F>,
    pub leaves: Vec<Vec<u8>>,
}

#[derive(CanonicalSerialize, CanonicalDeserialize, Clone)]
pub struct MHyraxState<F: PrimeField> {
    pub randomness: Vec<F>,
    pub mat: MMatrix<F>,
}

/// Mirror of the crate-private CSC sparse matrix of the Brakedown parameters.
#[derive(Clone, CanonicalSerialize, CanonicalDeserialize)]
pub struct MSprsMat<F: PrimeField> {
    pub n: usize,
    pub m: usize,
    pub d: usize,
    pub ind_ptr: Vec<usize>,
    pub col_ind: Vec<usize>,
    pub val: Vec<F>,
}

/// Mirror of `BrakedownPCParams` (all hash parameters are `()` in the harness configuration).
#[derive(Clone, CanonicalSerialize, CanonicalDeserialize)]
pub struct MBrakedownParams<F: PrimeField> {
    pub sec_param: usize,
    pub alpha: (usize, usize),
    pub beta: (usize, usize),
    pub rho_inv: (usize, usize),
    pub base_len: usize,
    pub n: usize,
    pub m: usize,
    pub m_ext: usize,
    pub a_dims: Vec<(usize, usize, usize)>,
    pub b_dims: Vec<(usize, usize, usize)>,
    pub start: Vec<usize>,
    pub end: Vec<usize>,
    pub a_mats: Vec<MSprsMat<F>>,
    pub b_mats: Vec<MSprsMat<F>>,
    pub check_well_formedness: bool,
}
