//! Independent implementation of the inner-product argument of [BCMS20] as used by
//! `InnerProductArgPC` (non-hiding and hiding verification relation, and an honest folding
//! prover over an arbitrary key). Written from the protocol description; shares only the
//! byte-level Fiat-Shamir convention (Blake2s over uncompressed serializations) with the library.
use crate::schemes::{JFr, JubJub};
use ark_ec::{AffineRepr, CurveGroup};
use ark_ff::{Field, One, Zero};
use ark_serialize::CanonicalSerialize;
use ark_std::ops::Mul;
use blake2::Blake2s256;
use digest::Digest;

type G = JubJub;
type GP = <JubJub as AffineRepr>::Group;

pub fn ro_challenge(bytes: &[u8]) -> JFr {
    let mut i = 0u64;
    loop {
        let mut inp = bytes.to_vec();
        inp.extend(i.to_le_bytes());
        let h = Blake2s256::digest(&inp);
        if let Some(c) = JFr::from_random_bytes(&h) {
            return c;
        }
        i += 1;
    }
}

pub fn ser3(a: &G, z: &JFr, v: &JFr) -> Vec<u8> {
    let mut b = Vec::new();
    a.serialize_uncompressed(&mut b).unwrap();
    z.serialize_uncompressed(&mut b).unwrap();
    v.serialize_uncompressed(&mut b).unwrap();
    b
}

pub fn first_round_challenge(comm: &G, z: &JFr, v: &JFr) -> JFr {
    ro_challenge(&ser3(comm, z, v))
}

pub fn hiding_challenge(comm: &G, z: &JFr, v: &JFr, hiding_comm: &G) -> JFr {
    let mut b = ser3(comm, z, v);
    hiding_comm.serialize_uncompressed(&mut b).unwrap();
    ro_challenge(&b)
}

pub fn next_round_challenge(prev: &JFr, l: &G, r: &G) -> JFr {
    let mut b = Vec::new();
    prev.serialize_uncompressed(&mut b).unwrap();
    l.serialize_uncompressed(&mut b).unwrap();
    r.serialize_uncompressed(&mut b).unwrap();
    ro_challenge(&b)
}

pub fn msm(bases: &[GP], scalars: &[JFr]) -> GP {
    let mut acc = GP::zero();
    for (b, s) in bases.iter().zip(scalars) {
        if !s.is_zero() && !b.is_zero() {
            acc += b.mul(*s);
        }
    }
    acc
}

fn ip(a: &[JFr], b: &[JFr]) -> JFr {
    a.iter().zip(b).map(|(x, y)| *x * y).sum()
}

pub struct FoldProof {
    pub l_vec: Vec<G>,
    pub r_vec: Vec<G>,
    pub final_key: G,
    pub c: JFr,
}

/// Honest folding prover: `key` (length 2^k, may contain identity elements), coefficient vector `a`
/// (same length), point `z`, combined commitment `comm` (must equal <a, key>), combined value
/// `v` (must equal a(z)), generator `h`.
pub fn fold_prove(key: &[GP], a: &[JFr], z: JFr, comm: &G, v: &JFr, h: &G) -> FoldProof {
    let n0 = key.len();
    assert!(n0.is_power_of_two() && a.len() == n0);
    let mut rc = first_round_challenge(comm, z_ref(&z), v);
    let hp = h.mul(rc).into_affine();
    let mut key: Vec<GP> = key.to_vec();
    let mut a: Vec<JFr> = a.to_vec();
    let mut zs: Vec<JFr> = Vec::with_capacity(n0);
    let mut cur = JFr::one();
    for _ in 0..n0 {
        zs.push(cur);
        cur *= z;
    }
    let (mut l_vec, mut r_vec) = (Vec::new(), Vec::new());
    let mut n = n0;
    while n > 1 {
        let hlf = n / 2;
        let l = msm(&key[..hlf], &a[hlf..n]) + hp.mul(ip(&a[hlf..n], &zs[..hlf]));
        let r = msm(&key[hlf..n], &a[..hlf]) + hp.mul(ip(&a[..hlf], &zs[hlf..n]));
        let (l, r) = (l.into_affine(), r.into_affine());
        l_vec.push(l);
        r_vec.push(r);
        rc = next_round_challenge(&rc, &l, &r);
        let rci = rc.inverse().unwrap();
        for i in 0..hlf {
            let ar = a[hlf + i];
            a[i] += rci * ar;
            let zr = zs[hlf + i];
            zs[i] += rc * zr;
            let kr = key[hlf + i];
            key[i] += kr.mul(rc);
        }
        n = hlf;
    }
    FoldProof { l_vec, r_vec, final_key: key[0].into_affine(), c: a[0] }
}

fn z_ref(z: &JFr) -> &JFr {
    z
}

/// h(X) = prod_{i=1..k} (1 + u_i X^(2^(k-i))), coefficient vector of length 2^k
pub fn check_poly_coeffs(u: &[JFr]) -> Vec<JFr> {
    let k = u.len();
    let mut c = vec![JFr::one(); 1 << k];
    for (j, cj) in c.iter_mut().enumerate() {
        for (i, ui) in u.iter().enumerate() {
            if (j >> (k - 1 - i)) & 1 == 1 {
                *cj *= ui;
            }
        }
    }
    c
}

pub fn check_poly_eval(u: &[JFr], z: &JFr) -> JFr {
    let k = u.len();
    let mut p = JFr::one();
    for (i, ui) in u.iter().enumerate() {
        p *= JFr::one() + *ui * z.pow([1u64 << (k - 1 - i)]);
    }
    p
}

/// The published verification relation for one point, given the already combined commitment and value
/// (combination challenges come from the caller's sponge and are applied by the caller).
/// `expected_rounds` = log2(d+1). Returns Ok(final-key MSM agrees) / Err(reason).
pub fn verify_relation(
    comm_key: &[G],
    h: &G,
    s: &G,
    combined_comm: GP,
    combined_v: JFr,
    z: JFr,
    l_vec: &[G],
    r_vec: &[G],
    final_key: &G,
    c: &JFr,
    hiding: Option<(G, JFr)>,
    expected_rounds: usize,
) -> Result<bool, String> {
    if l_vec.len() != r_vec.len() || l_vec.len() != expected_rounds {
        return Err(format!("round count {} / {} differs from log2(d+1) = {}", l_vec.len(), r_vec.len(), expected_rounds));
    }
    let mut cc = combined_comm;
    if let Some((hc, rand)) = hiding {
        let ch = hiding_challenge(&combined_comm.into_affine(), &z, &combined_v, &hc);
        cc += hc.mul(ch) - s.mul(rand);
    }
    let cca = cc.into_affine();
    let mut rc = first_round_challenge(&cca, &z, &combined_v);
    let hp = h.mul(rc);
    let mut round = cc + hp.mul(combined_v);
    let mut us = Vec::new();
    for (l, r) in l_vec.iter().zip(r_vec) {
        rc = next_round_challenge(&rc, l, r);
        if rc.is_zero() {
            return Err("zero round challenge".into());
        }
        us.push(rc);
        round += l.mul(rc.inverse().unwrap()) + r.mul(rc);
    }
    let vp = check_poly_eval(&us, &z) * c;
    let rhs = final_key.mul(*c) + hp.mul(vp);
    if round != rhs {
        return Ok(false);
    }
    let coeffs = check_poly_coeffs(&us);
    let bases: Vec<GP> = comm_key.iter().map(|g| g.into_group()).collect();
    if coeffs.len() != bases.len() {
        return Err("check polynomial length differs from key length".into());
    }
    Ok(msm(&bases, &coeffs).into_affine() == *final_key)
}

/// The final key that makes the succinct part of the relation hold for the given (possibly false) combined
/// value, the other proof elements unchanged (non-hiding proofs): c^-1 * (round commitment - c * h(z) * h').
/// Such a proof fails only the final linear-time test (MSM of the check polynomial over the key).
pub fn forge_final_key(h: &G, combined_comm: GP, combined_v: JFr, z: JFr, l_vec: &[G], r_vec: &[G], c: &JFr) -> Option<G> {
    let cca = combined_comm.into_affine();
    let mut rc = first_round_challenge(&cca, &z, &combined_v);
    let hp = h.mul(rc);
    let mut round = combined_comm + hp.mul(combined_v);
    let mut us = Vec::new();
    for (l, r) in l_vec.iter().zip(r_vec) {
        rc = next_round_challenge(&rc, l, r);
        us.push(rc);
        round += l.mul(rc.inverse()?) + r.mul(rc);
    }
    let vp = check_poly_eval(&us, &z) * c;
    let cinv = c.inverse()?;
    Some((round - hp.mul(vp)).mul(cinv).into_affine())
}
