//! C12 — keys, commitments, states and proofs survive canonical serialization.
use crate::for_each_scheme;
use crate::probe::mon_rng;
use crate::rt::{attempt, decide, guard, Ctx, Out};
use crate::scen::*;
use crate::schemes::{below, range, Scheme};
use ark_ff::UniformRand;
use ark_poly::Polynomial;
use ark_poly_commit::{BatchLCProof, Evaluations, LCTerm, LabeledCommitment, LinearCombination, PolynomialCommitment, QuerySet};
use ark_serialize::{CanonicalDeserialize, CanonicalSerialize, Compress, Validate};
use rand_chacha::ChaCha20Rng;
use rand_core::RngCore;
use serde_json::{json, Value};

fn ser_mode<T: CanonicalSerialize>(x: &T, c: Compress) -> Result<Vec<u8>, String> {
    let mut v = Vec::new();
    x.serialize_with_mode(&mut v, c).map_err(|e| format!("{:?}", e))?;
    Ok(v)
}

fn de_mode<T: CanonicalDeserialize>(b: &[u8], c: Compress, v: Validate) -> Result<(T, usize), String> {
    let mut rd = b;
    let t = T::deserialize_with_mode(&mut rd, c, v).map_err(|e| format!("{:?}", e))?;
    Ok((t, b.len() - rd.len()))
}

/// Round-trip laws for one artefact; returns the copy decoded from the compressed, validated form.
pub fn roundtrip<T: CanonicalSerialize + CanonicalDeserialize>(ctx: &mut Ctx, what: &str, x: &T, desc: &Value, rng: &mut impl RngCore) -> Option<T> {
    let mut out = None;
    let mut issues: Vec<String> = Vec::new();
    let mut total_prefixes = 0u64;
    for (cname, c) in [("compressed", Compress::Yes), ("uncompressed", Compress::No)] {
        let bytes = match guard(|| ser_mode(x, c)) {
            Ok(Ok(b)) => b,
            Ok(Err(e)) => {
                issues.push(format!("{}: serialize error {}", cname, e));
                continue;
            }
            Err(p) => {
                issues.push(format!("{}: serialize panicked: {}", cname, p));
                continue;
            }
        };
        let sz = x.serialized_size(c);
        if sz != bytes.len() {
            issues.push(format!("{}: serialized_size {} != {} bytes written", cname, sz, bytes.len()));
        }
        for (vname, v) in [("validate", Validate::Yes), ("no-validate", Validate::No)] {
            match guard(|| de_mode::<T>(&bytes, c, v)) {
                Ok(Ok((y, used))) => {
                    if used != bytes.len() {
                        issues.push(format!("{}/{}: consumed {} of {} bytes", cname, vname, used, bytes.len()));
                    }
                    match ser_mode(&y, c) {
                        Ok(b2) if b2 == bytes => {}
                        Ok(_) => issues.push(format!("{}/{}: re-serialization differs", cname, vname)),
                        Err(e) => issues.push(format!("{}/{}: re-serialization error {}", cname, vname, e)),
                    }
                    if matches!(c, Compress::Yes) && matches!(v, Validate::Yes) {
                        out = Some(y);
                    }
                }
                Ok(Err(e)) => issues.push(format!("{}/{}: deserialize error {}", cname, vname, e)),
                Err(p) => issues.push(format!("{}/{}: deserialize panicked: {}", cname, vname, p)),
            }
        }
        // proper prefixes must be reported as errors
        let cuts: Vec<usize> = if bytes.len() <= 600 {
            (0..bytes.len()).collect()
        } else {
            let mut v: Vec<usize> = vec![0, 1, 7, 8, 9, bytes.len() - 1, bytes.len() - 2, bytes.len() / 2];
            // megabyte artefacts: every cut costs a full parse
            for _ in 0..(if bytes.len() > (1 << 20) { 2 } else { 40 }) {
                v.push(below(rng, bytes.len()));
            }
            v
        };
        for cut in cuts {
            total_prefixes += 1;
            match guard(|| de_mode::<T>(&bytes[..cut], c, Validate::No)) {
                Ok(Ok(_)) => {
                    issues.push(format!("{}: prefix of {} / {} bytes deserializes", cname, cut, bytes.len()));
                    break;
                }
                Ok(Err(_)) => {}
                Err(_) => {} // an abort on truncated input is still a refusal
            }
        }
    }
    ctx.count("prefixes-tried", total_prefixes);
    let mut d = desc.clone();
    d["artefact"] = json!(what);
    ctx.check(issues.is_empty(), &format!("roundtrip[{}]", what), "serialize", d, || json!({"issues": issues}));
    out
}

fn case<S: Scheme>(ctx: &mut Ctx, rng: &mut ChaCha20Rng) {
    let thorough = ctx.is_thorough();
    let tx = match gen_tx::<S>(rng, thorough, 3) {
        Ok(t) => t,
        Err(_) => return ctx.skipped("baseline", "honest pipeline refused (reported under C01/C17)"),
    };
    let desc = json!({"tx": tx.json()});
    let q = gen_queries::<S>(&tx.w.cfg, &tx.polys, range(rng, 1, 3), rng);
    let ident: Vec<usize> = (0..tx.polys.len()).collect();
    let bproof = match batch_open::<S>(&tx, &ident, &q.qs, &mut tx.sponge(), rng.next_u64()) {
        Ok(p) => p,
        Err(_) => return ctx.skipped("baseline", "honest batch_open refused (reported under C01)"),
    };
    // ---- round trips
    let pp2 = roundtrip(ctx, "universal-params", &tx.w.pp, &desc, rng);
    let ck2 = roundtrip(ctx, "committer-key", &tx.w.ck, &desc, rng);
    let vk2 = roundtrip(ctx, "verifier-key", &tx.w.vk, &desc, rng);
    let mut comms2: Vec<LComm<S>> = Vec::new();
    for c in &tx.c.comms {
        if let Some(c2) = roundtrip(ctx, "commitment", c.commitment(), &desc, rng) {
            comms2.push(LabeledCommitment::new(c.label().clone(), c2, c.degree_bound()));
        }
    }
    let mut states2: Vec<StateOf<S>> = Vec::new();
    for s in &tx.c.states {
        if let Some(s2) = roundtrip(ctx, "commitment-state", s, &desc, rng) {
            states2.push(s2);
        }
    }
    let bproof2 = roundtrip(ctx, "batch-proof", &bproof, &desc, rng);
    let _ = roundtrip(ctx, "labeled-polynomial", &tx.polys[0], &desc, rng);
    // ---- decisions with deserialized artefacts: honest and one tampered claim
    let mut tampered = q.evals.clone();
    let k0 = tampered.keys().next().cloned().unwrap();
    *tampered.get_mut(&k0).unwrap() += FOf::<S>::from(1u64);
    let tamper_matters = S::NAME != "hyrax"; // Hyrax ignores claimed values on this tree (finding F3, reported under C02)
    let orig_ok = batch_check::<S>(&tx.w.vk, &tx.c.comms, &q.qs, &q.evals, &bproof, &mut tx.sponge(), 1);
    let orig_bad = batch_check::<S>(&tx.w.vk, &tx.c.comms, &q.qs, &tampered, &bproof, &mut tx.sponge(), 1);
    if let (Some(vk2), Some(bp2)) = (&vk2, &bproof2) {
        if comms2.len() == tx.c.comms.len() {
            let a = batch_check::<S>(vk2, &comms2, &q.qs, &q.evals, bp2, &mut tx.sponge(), 1);
            let b = batch_check::<S>(vk2, &comms2, &q.qs, &tampered, bp2, &mut tx.sponge(), 1);
            let same = a.is_accept() == orig_ok.is_accept() && b.is_accept() == orig_bad.is_accept();
            let _ = tamper_matters;
            ctx.check(same, "decision-preserved[batch_check]", "batch_check", desc.clone(), || json!({"original": [orig_ok.json(), orig_bad.json()], "deserialized": [a.json(), b.json()]}));
            // single check on the first group, with each deserialized proof
            let g = &q.groups[0];
            let proofs: Vec<ProofOf<S>> = bp2.clone().into();
            let oproofs: Vec<ProofOf<S>> = bproof.clone().into();
            let cs2: Vec<&LComm<S>> = g.2.iter().map(|l| &comms2[tx.idx_of(l)]).collect();
            let cs1: Vec<&LComm<S>> = g.2.iter().map(|l| &tx.c.comms[tx.idx_of(l)]).collect();
            let vals: Vec<FOf<S>> = g.2.iter().map(|l| q.evals[&(l.clone(), g.1.clone())]).collect();
            let o1 = check::<S>(&tx.w.vk, &cs1, &g.1, &vals, &oproofs[0], &mut tx.sponge(), 2);
            let o2 = check::<S>(vk2, &cs2, &g.1, &vals, &proofs[0], &mut tx.sponge(), 2);
            ctx.check(o1.is_accept() == o2.is_accept(), "decision-preserved[check]", "check", desc.clone(), || json!({"original": o1.json(), "deserialized": o2.json()}));
        }
    }
    // ---- deserialized universal parameters trim to the same keys; prepared elements rebuilt on load are usable
    if let Some(pp2) = &pp2 {
        let cfg = &tx.w.cfg;
        match attempt(|| PcOf::<S>::trim(pp2, cfg.supported_degree, cfg.supported_hiding, cfg.enforced.as_deref())) {
            Err(o) => ctx.violated("trim-of-deserialized-params", "trim", desc.clone(), json!({"outcome": o.json()})),
            Ok((ck3, vk3)) => {
                let same = crate::ju::ser(&ck3) == crate::ju::ser(&tx.w.ck) && crate::ju::ser(&vk3) == crate::ju::ser(&tx.w.vk);
                let a = batch_check::<S>(&vk3, &tx.c.comms, &q.qs, &q.evals, &bproof, &mut tx.sponge(), 1);
                let b = batch_check::<S>(&vk3, &tx.c.comms, &q.qs, &tampered, &bproof, &mut tx.sponge(), 1);
                let ok = same && a.is_accept() == orig_ok.is_accept() && b.is_accept() == orig_bad.is_accept();
                ctx.check(ok, "trim-of-deserialized-params", "trim", desc.clone(), || json!({"keys_equal": same, "decisions": [a.json(), b.json()], "original": [orig_ok.json(), orig_bad.json()]}));
            }
        }
    }
    // ---- deserialized committer key and states still produce accepted proofs
    if let Some(ck2) = &ck2 {
        if states2.len() == tx.c.states.len() {
            let mut r = mon_rng(5);
            let res = attempt(|| PcOf::<S>::batch_open(ck2, tx.polys.iter(), tx.c.comms.iter(), &q.qs, &mut tx.sponge(), states2.iter(), Some(&mut r)));
            match res {
                Err(o) => ctx.violated("open-with-deserialized-key", "batch_open", desc.clone(), json!({"outcome": o.json()})),
                Ok(p) => {
                    let o = batch_check::<S>(&tx.w.vk, &tx.c.comms, &q.qs, &q.evals, &p, &mut tx.sponge(), 1);
                    ctx.check(o.is_accept() == orig_ok.is_accept(), "open-with-deserialized-key", "batch_check", desc.clone(), || json!({"outcome": o.json()}));
                }
            }
        }
    }
    // ---- combination proof
    let unb: Vec<usize> = (0..tx.polys.len()).filter(|&i| tx.specs[i].bound.is_none()).collect();
    if !unb.is_empty() {
        let mut lc = LinearCombination::empty("lc");
        for &i in unb.iter().take(2) {
            lc.push((FOf::<S>::from(3u64), LCTerm::PolyLabel(tx.polys[i].label().clone())));
        }
        lc.push((FOf::<S>::from(5u64), LCTerm::One));
        let z = S::gen_point(&tx.w.cfg, rng);
        let mut qs: QuerySet<PtOf<S>> = QuerySet::new();
        qs.insert(("lc".to_string(), ("z".to_string(), z.clone())));
        let mut v = FOf::<S>::from(5u64);
        for &i in unb.iter().take(2) {
            v += FOf::<S>::from(3u64) * tx.polys[i].evaluate(&z);
        }
        let mut ev: Evaluations<PtOf<S>, FOf<S>> = Evaluations::new();
        ev.insert(("lc".to_string(), z.clone()), v);
        let mut r = mon_rng(6);
        let lcs = [lc];
        let res = attempt(|| PcOf::<S>::open_combinations(&tx.w.ck, lcs.iter(), tx.polys.iter(), tx.c.comms.iter(), &qs, &mut tx.sponge(), tx.c.states.iter(), Some(&mut r)));
        if let Ok(lp) = res {
            // every shape of the optional evaluation list (the default open_combinations ships Some(vec![]) when
            // nothing but constants is queried)
            for evs in [None, Some(vec![]), Some(vec![FOf::<S>::from(7u64)]), Some((0..3).map(|_| FOf::<S>::rand(rng)).collect::<Vec<_>>())] {
                let v = BatchLCProof::<FOf<S>, BatchProofOf<S>> { proof: lp.proof.clone(), evals: evs.clone() };
                if let Some(v2) = roundtrip::<BatchLCProof<FOf<S>, BatchProofOf<S>>>(ctx, "batch-lc-proof", &v, &desc, rng) {
                    ctx.check(v2.evals == evs, "batch-lc-proof", "deserialize", desc.clone(), || json!({"evals_in": evs.as_ref().map(|e| e.len()), "evals_out": v2.evals.as_ref().map(|e| e.len())}));
                }
            }
            if let Some(lp2) = roundtrip::<BatchLCProof<FOf<S>, BatchProofOf<S>>>(ctx, "batch-lc-proof", &lp, &desc, rng) {
                if let Some(vk2) = &vk2 {
                    let chk = |vk: &VkOf<S>, p: &BatchLCProof<FOf<S>, BatchProofOf<S>>, e: &Evaluations<PtOf<S>, FOf<S>>| -> Out {
                        let mut r = mon_rng(7);
                        decide(|| PcOf::<S>::check_combinations(vk, lcs.iter(), tx.c.comms.iter(), &qs, e, p, &mut tx.sponge(), &mut r))
                    };
                    let mut bad = ev.clone();
                    *bad.values_mut().next().unwrap() += FOf::<S>::from(1u64);
                    let (a1, b1) = (chk(&tx.w.vk, &lp, &ev), chk(&tx.w.vk, &lp, &bad));
                    let (a2, b2) = (chk(vk2, &lp2, &ev), chk(vk2, &lp2, &bad));
                    ctx.check(a1.is_accept() == a2.is_accept() && b1.is_accept() == b2.is_accept(), "decision-preserved[check_combinations]", "check_combinations", desc.clone(),
                        || json!({"original": [a1.json(), b1.json()], "deserialized": [a2.json(), b2.json()]}));
                }
            }
        }
    }
}

/// PST13 keys with hundreds of variables (one G2 element each): serialized keys beyond 64 KiB.
fn pst13_wide_key(ctx: &mut Ctx, idx: u64, rng: &mut ChaCha20Rng) {
    use crate::schemes::{Cfg, Pst13S, E381};
    type S = Pst13S<E381>;
    let nv = if idx == 0 { 350 } else { 700 };
    let cfg = Cfg { max_degree: 1, num_vars: Some(nv), supported_degree: 1, supported_hiding: 1, enforced: None };
    let desc = json!({"num_vars": nv, "max_degree": 1});
    let w = match make_world::<S>(&cfg, rng) {
        Ok(w) => w,
        Err((st, o)) => return ctx.violated("honest-pipeline-refused", &st, desc, json!({"outcome": o.json()})),
    };
    let _ = roundtrip::<VkOf<S>>(ctx, "verifier-key", &w.vk, &desc, rng);
    let _ = roundtrip::<CkOf<S>>(ctx, "committer-key", &w.ck, &desc, rng);
    let _ = roundtrip::<PpOf<S>>(ctx, "universal-params", &w.pp, &desc, rng);
}

pub fn run(ctx: &mut Ctx) {
    crate::schemes::set_custom_params(true);
    ctx.run_cases("pst13/wide-key", 2, |ctx, i, rng| pst13_wide_key(ctx, i, rng));
    for_each_scheme!(ctx, S, {
        let n = ctx.n(60, 1200) / <S as Scheme>::WEIGHT.max(1);
        ctx.run_cases(<S as Scheme>::NAME, n.max(4), |ctx, _i, rng| case::<S>(ctx, rng));
    });
    super::offtrait::c12(ctx);
}
