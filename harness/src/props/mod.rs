use crate::rt::Ctx;

pub mod c16;

pub fn dispatch(ctx: &mut Ctx) -> bool {
    match ctx.prop.as_str() {
        "C16" => c16::run(ctx),
        _ => return false,
    }
    true
}
