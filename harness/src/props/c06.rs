//! C06 — linear-combination openings prove exactly the stated combinations.
use crate::for_each_scheme;
use crate::probe::mon_rng;
use crate::rt::{attempt, decide, Ctx, Out};
use crate::scen::*;
use crate::schemes::{below, range, Scheme};
use ark_ff::{One, UniformRand, Zero};
use ark_poly::Polynomial;
use ark_poly_commit::{BatchLCProof, Evaluations, LCTerm, LinearCombination, PolynomialCommitment, QuerySet};
use rand_chacha::ChaCha20Rng;
use rand_core::RngCore;
use serde_json::{json, Value};

type Lc<S> = LinearCombination<FOf<S>>;

fn coeff<S: Scheme>(rng: &mut impl RngCore) -> FOf<S> {
    match rng.next_u32() % 8 {
        0 => FOf::<S>::zero(),
        1 => FOf::<S>::one(),
        2 => -FOf::<S>::one(),
        // short scalars of every bit length up to 128 (truncated challenges, small integers): scalar
        // multiplications have fast paths keyed on the size of the scalar
        3 | 4 => {
            let x = ((rng.next_u64() as u128) << 64) | rng.next_u64() as u128;
            FOf::<S>::from(x >> (rng.next_u32() % 128))
        }
        _ => FOf::<S>::rand(rng),
    }
}

fn nz<S: Scheme>(rng: &mut impl RngCore) -> FOf<S> {
    loop {
        let d = FOf::<S>::rand(rng);
        if !d.is_zero() {
            return d;
        }
    }
}

fn lc_json<S: Scheme>(lc: &Lc<S>) -> Value {
    json!({"label": lc.label, "terms": lc.terms.iter().map(|(c, t)| {
        let cs = if c.is_zero() { "0".to_string() } else if c.is_one() { "1".to_string() } else if *c == -FOf::<S>::one() { "-1".to_string() } else { "r".to_string() };
        match t { LCTerm::One => format!("{}*ONE", cs), LCTerm::PolyLabel(l) => format!("{}*{}", cs, l) }
    }).collect::<Vec<_>>()})
}

fn lc_value<S: Scheme>(tx: &Tx<S>, lc: &Lc<S>, z: &PtOf<S>) -> FOf<S> {
    let mut v = FOf::<S>::zero();
    for (c, t) in lc.iter() {
        match t {
            LCTerm::One => v += *c,
            LCTerm::PolyLabel(l) => v += *c * tx.polys[tx.idx_of(l)].evaluate(z),
        }
    }
    v
}

struct LcSet<S: Scheme> {
    lcs: Vec<Lc<S>>,
    qs: QuerySet<PtOf<S>>,
    evals: Evaluations<PtOf<S>, FOf<S>>,
    shared_value: bool,
}

fn gen_lcs<S: Scheme>(tx: &Tx<S>, allow_bounded_mix: bool, rng: &mut ChaCha20Rng) -> LcSet<S> {
    let unbounded: Vec<usize> = (0..tx.polys.len()).filter(|&i| tx.specs[i].bound.is_none()).collect();
    let bounded: Vec<usize> = (0..tx.polys.len()).filter(|&i| tx.specs[i].bound.is_some()).collect();
    let nlc = range(rng, 1, 4);
    let mut lcs: Vec<Lc<S>> = Vec::new();
    // a combination may carry the label of a polynomial - its own single term (the usual way to open a plain
    // polynomial among combinations) or an unrelated one: labels of combinations and of polynomials are separate
    // name spaces
    let clash = match rng.next_u32() % 4 {
        0 => Some((below(rng, nlc), true)),
        1 => Some((below(rng, nlc), false)),
        _ => None,
    };
    for j in 0..nlc {
        let mut label = format!("{}{}", ["lc", "eq", "Zq", "a_"][below(rng, 4)], j);
        let mut own_term: Option<usize> = None;
        if let Some((cj, own)) = clash {
            if cj == j {
                let i = if unbounded.is_empty() { below(rng, tx.polys.len()) } else { unbounded[below(rng, unbounded.len())] };
                label = tx.polys[i].label().clone();
                if own && !allow_bounded_mix && tx.specs[i].bound.is_none() {
                    own_term = Some(i);
                }
            }
        }
        if let Some(i) = own_term {
            let mut lc = LinearCombination::empty(label);
            lc.push((FOf::<S>::one(), LCTerm::PolyLabel(tx.polys[i].label().clone())));
            lcs.push(lc);
            continue;
        }
        let mut lc = LinearCombination::empty(label);
        if !bounded.is_empty() && (unbounded.is_empty() || rng.next_u32() % 4 == 0) && !allow_bounded_mix {
            // the only admissible shape with a degree-bounded polynomial: single term, coefficient one
            let i = bounded[below(rng, bounded.len())];
            lc.push((FOf::<S>::one(), LCTerm::PolyLabel(tx.polys[i].label().clone())));
        } else {
            let pool: &Vec<usize> = if allow_bounded_mix || unbounded.is_empty() { &bounded } else { &unbounded };
            let pool: Vec<usize> = if allow_bounded_mix { (0..tx.polys.len()).collect() } else { pool.clone() };
            // mostly 1..6 terms; one combination in twelve is long (repeated labels): windowed / chunked
            // accumulation only starts beyond a few dozen terms
            let nterms = if rng.next_u32() % 12 == 0 { range(rng, 20, 90) } else { range(rng, 1, 6) };
            let mut has_poly = false;
            for t in 0..nterms {
                if t > 0 && rng.next_u32() % 4 == 0 {
                    lc.push((coeff::<S>(rng), LCTerm::One));
                } else {
                    let i = pool[below(rng, pool.len())];
                    lc.push((coeff::<S>(rng), LCTerm::PolyLabel(tx.polys[i].label().clone())));
                    has_poly = true;
                }
            }
            if !has_poly {
                let i = pool[below(rng, pool.len())];
                lc.push((nz::<S>(rng), LCTerm::PolyLabel(tx.polys[i].label().clone())));
            }
        }
        lcs.push(lc);
    }
    if allow_bounded_mix {
        // make sure at least one LC mixes a bounded polynomial with another term
        let i = bounded[below(rng, bounded.len())];
        let l = tx.polys[i].label().clone();
        let lc = &mut lcs[0];
        lc.terms.clear();
        match rng.next_u32() % 4 {
            3 => {
                // a single degree-bounded term whose coefficient is not one: the bound cannot be kept either
                let c = nz::<S>(rng) + FOf::<S>::one();
                let c = if c.is_one() { c + FOf::<S>::one() } else { c };
                lc.push((c, LCTerm::PolyLabel(l)));
            }
            0 => {
                lc.push((FOf::<S>::one(), LCTerm::PolyLabel(l)));
                lc.push((nz::<S>(rng), LCTerm::One));
            }
            1 => {
                let k = below(rng, tx.polys.len());
                lc.push((FOf::<S>::one(), LCTerm::PolyLabel(l)));
                lc.push((coeff::<S>(rng), LCTerm::PolyLabel(tx.polys[k].label().clone())));
            }
            _ => {
                lc.push((nz::<S>(rng) + FOf::<S>::one(), LCTerm::PolyLabel(l.clone())));
                lc.push((FOf::<S>::zero(), LCTerm::PolyLabel(l)));
            }
        }
    }
    // query set over LC labels: 1..3 point labels, some sharing a value
    let npl = range(rng, 1, 4);
    let mut plabels = distinct_labels(&["z", "beta", "alpha", "z10", "z2", "gamma"], npl, rng);
    // a third of the sets with three or more labels: the first and the third label IN LABEL ORDER share one point value
    // and the label between them has another one (aliases that are not adjacent in the verifier's iteration order)
    let sandwich = npl >= 3 && rng.next_u32() % 3 == 0;
    if sandwich {
        plabels.sort();
    }
    let mut vals: Vec<PtOf<S>> = Vec::new();
    let mut shared_value = false;
    let mut qs = QuerySet::new();
    for (i, pl) in plabels.iter().enumerate() {
        let z = if sandwich && i == 2 {
            vals[0].clone()
        } else if sandwich && i == 1 {
            S::other_point(&tx.w.cfg, &vals[0], rng)
        } else if i > 0 && rng.next_u32() % 2 == 0 {
            vals[below(rng, vals.len())].clone()
        } else {
            S::gen_point(&tx.w.cfg, rng)
        };
        if vals.contains(&z) {
            shared_value = true;
        }
        vals.push(z.clone());
        let mut any = false;
        for lc in &lcs {
            if rng.next_u32() % 3 != 0 || (sandwich && rng.next_u32() % 2 == 0) {
                qs.insert((lc.label.clone(), (pl.clone(), z.clone())));
                any = true;
            }
        }
        if !any {
            qs.insert((lcs[below(rng, lcs.len())].label.clone(), (pl.clone(), z.clone())));
        }
    }
    let mut evals = Evaluations::new();
    let known = qs.clone();
    if S::default_combinations() && rng.next_u32() % 3 == 0 {
        // an entry naming none of the combinations, sorting before all of them: skipped by the default implementation
        let (pl, z) = known.iter().next().map(|(_, (pl, z))| (pl.clone(), z.clone())).unwrap();
        qs.insert(("!spare".to_string(), (pl, z)));
    }
    for (l, (_, z)) in &known {
        let lc = lcs.iter().find(|lc| &lc.label == l).unwrap();
        evals.insert((l.clone(), z.clone()), lc_value::<S>(tx, lc, z));
    }
    LcSet { lcs, qs, evals, shared_value }
}

fn open_lc<S: Scheme>(tx: &Tx<S>, ls: &LcSet<S>, perm: &[usize], seed: u64) -> Result<BatchLCProof<FOf<S>, BatchProofOf<S>>, Out> {
    let polys = permuted(&tx.polys, perm);
    let comms = permuted(&tx.c.comms, perm);
    let states = permuted(&tx.c.states, perm);
    let mut sp = tx.sponge();
    let mut r = mon_rng(seed);
    attempt(|| PcOf::<S>::open_combinations(&tx.w.ck, ls.lcs.iter(), polys.iter(), comms.iter(), &ls.qs, &mut sp, states.iter(), Some(&mut r)))
}

fn check_lc<S: Scheme>(
    tx: &Tx<S>,
    lcs: &[Lc<S>],
    qs: &QuerySet<PtOf<S>>,
    evals: &Evaluations<PtOf<S>, FOf<S>>,
    proof: &BatchLCProof<FOf<S>, BatchProofOf<S>>,
    seed: u64,
) -> Out {
    let mut sp = tx.sponge();
    let mut r = mon_rng(seed);
    decide(|| PcOf::<S>::check_combinations(&tx.w.vk, lcs.iter(), tx.c.comms.iter(), qs, evals, proof, &mut sp, &mut r))
}

fn case<S: Scheme>(ctx: &mut Ctx, rng: &mut ChaCha20Rng) {
    let thorough = ctx.is_thorough();
    let tx = match gen_tx::<S>(rng, thorough, 4) {
        Ok(t) => t,
        Err(_) => return ctx.skipped("baseline", "honest pipeline refused (reported under C01/C17)"),
    };
    let has_bounded = tx.specs.iter().any(|s| s.bound.is_some());
    // ---- degree-bound policy
    if has_bounded && rng.next_u32() % 2 == 0 {
        let ls = gen_lcs::<S>(&tx, true, rng);
        let perm = permutation(tx.polys.len(), rng);
        let desc = json!({"tx": tx.json(), "lcs": ls.lcs.iter().map(|l| lc_json::<S>(l)).collect::<Vec<_>>()});
        match open_lc::<S>(&tx, &ls, &perm, rng.next_u64()) {
            Err(o) => {
                ctx.count(&format!("bounded-mix-refused:{}", o.tag()), 1);
                ctx.held("degree-bound-mix-refused", desc);
            }
            Ok(_) => ctx.violated("degree-bound-mix-refused", "open_combinations", desc, json!({"outcome": "Ok(proof) for a combination mixing a degree-bounded polynomial with other terms"})),
        }
        // verifier side must refuse too, whatever proof it is handed
        return;
    }
    let ls = gen_lcs::<S>(&tx, false, rng);
    let perm = permutation(tx.polys.len(), rng);
    if ls.shared_value {
        ctx.count("feature:point-labels-sharing-value", 1);
    }
    if ls.lcs.iter().any(|l| l.terms.iter().any(|(_, t)| t.is_one())) {
        ctx.count("feature:constant-term", 1);
    }
    if ls.lcs.iter().any(|l| l.terms.iter().any(|(c, _)| c.is_zero())) {
        ctx.count("feature:zero-coefficient", 1);
    }
    let desc = json!({"tx": tx.json(), "lcs": ls.lcs.iter().map(|l| lc_json::<S>(l)).collect::<Vec<_>>(),
        "queries": ls.qs.iter().map(|(l, (pl, z))| json!([l, pl, crate::ju::sha(format!("{:?}", z).as_bytes())])).collect::<Vec<_>>(),
        "prover_perm": perm});
    let proof = match open_lc::<S>(&tx, &ls, &perm, rng.next_u64()) {
        Ok(p) => p,
        Err(o) => return ctx.violated("honest-lc-refused", "open_combinations", desc, json!({"outcome": o.json()})),
    };
    let o = check_lc::<S>(&tx, &ls.lcs, &ls.qs, &ls.evals, &proof, rng.next_u64());
    if o != Out::Accept {
        let cls = if ls.shared_value { "honest-lc-rejected[shared-point-value]" } else { "honest-lc-rejected" };
        return ctx.violated(cls, "check_combinations", desc, json!({"outcome": o.json(), "evals_transmitted": proof.evals.as_ref().map(|e| e.len())}));
    }
    ctx.held("honest-lc-accepted", desc.clone());
    let keys: Vec<_> = ls.evals.keys().cloned().collect();
    // ---- claimed LC value changed
    for _ in 0..2 {
        let k = &keys[below(rng, keys.len())];
        let mut ev = ls.evals.clone();
        *ev.get_mut(k).unwrap() += nz::<S>(rng);
        let o = check_lc::<S>(&tx, &ls.lcs, &ls.qs, &ev, &proof, rng.next_u64());
        ctx.check(!o.is_accept(), "lc-value-perturbed", "check_combinations", desc.clone(), || json!({"outcome": o.json(), "lc": k.0}));
    }
    // ---- two claimed LC values wrong at once: errors that cancel in a plain sum, and two values exchanged
    if keys.len() >= 2 {
        let a = below(rng, keys.len());
        let mut b = below(rng, keys.len() - 1);
        if b >= a {
            b += 1;
        }
        let d = nz::<S>(rng);
        let mut ev = ls.evals.clone();
        *ev.get_mut(&keys[a]).unwrap() += d;
        *ev.get_mut(&keys[b]).unwrap() -= d;
        let o = check_lc::<S>(&tx, &ls.lcs, &ls.qs, &ev, &proof, rng.next_u64());
        ctx.check(!o.is_accept(), "lc-values-cancelling-pair", "check_combinations", desc.clone(), || json!({"outcome": o.json(), "lcs": [keys[a].0, keys[b].0]}));
        if ls.evals[&keys[a]] != ls.evals[&keys[b]] {
            let mut ev = ls.evals.clone();
            let (va, vb) = (ls.evals[&keys[a]], ls.evals[&keys[b]]);
            ev.insert(keys[a].clone(), vb);
            ev.insert(keys[b].clone(), va);
            let o = check_lc::<S>(&tx, &ls.lcs, &ls.qs, &ev, &proof, rng.next_u64());
            ctx.check(!o.is_accept(), "lc-values-swapped", "check_combinations", desc.clone(), || json!({"outcome": o.json(), "lcs": [keys[a].0, keys[b].0]}));
        } else {
            ctx.skipped("lc-values-swapped", "the two claimed values coincide");
        }
    } else {
        ctx.skipped("lc-values-cancelling-pair", "a single claimed value");
    }
    // ---- verifier-side coefficient changed
    {
        let li = below(rng, ls.lcs.len());
        let lc = &ls.lcs[li];
        let pts: Vec<PtOf<S>> = ls.qs.iter().filter(|(l, _)| l == &lc.label).map(|(_, (_, z))| z.clone()).collect();
        let cand: Vec<usize> = (0..lc.terms.len())
            .filter(|&t| match &lc.terms[t].1 {
                LCTerm::One => false,
                LCTerm::PolyLabel(l) => pts.iter().any(|z| !tx.polys[tx.idx_of(l)].evaluate(z).is_zero()),
            })
            .collect();
        // a single-term degree-bounded LC must keep coefficient one (else the call aborts, which is also a refusal)
        if cand.is_empty() {
            ctx.skipped("lc-coefficient-perturbed", "changed coefficient multiplies a vanishing evaluation / LC not queried");
        } else {
            let t = cand[below(rng, cand.len())];
            let mut lcs2 = ls.lcs.clone();
            lcs2[li].terms[t].0 += nz::<S>(rng);
            let o = check_lc::<S>(&tx, &lcs2, &ls.qs, &ls.evals, &proof, rng.next_u64());
            ctx.check(!o.is_accept(), "lc-coefficient-perturbed", "check_combinations", desc.clone(), || json!({"outcome": o.json(), "lc": lc.label, "term": t}));
        }
    }
    // ---- verifier-side constant changed / added
    {
        let li = below(rng, ls.lcs.len());
        let lc = &ls.lcs[li];
        let queried = ls.qs.iter().any(|(l, _)| l == &lc.label);
        let bounded_single = lc.terms.len() == 1
            && matches!(&lc.terms[0].1, LCTerm::PolyLabel(l) if tx.specs[tx.idx_of(l)].bound.is_some());
        if !queried {
            ctx.skipped("lc-constant-perturbed", "LC not queried");
        } else {
            let mut lcs2 = ls.lcs.clone();
            if let Some(t) = lc.terms.iter().position(|(_, t)| t.is_one()) {
                lcs2[li].terms[t].0 += nz::<S>(rng);
            } else {
                lcs2[li].terms.push((nz::<S>(rng), LCTerm::One));
            }
            let o = check_lc::<S>(&tx, &lcs2, &ls.qs, &ls.evals, &proof, rng.next_u64());
            let _ = bounded_single;
            ctx.check(!o.is_accept(), "lc-constant-perturbed", "check_combinations", desc.clone(), || json!({"outcome": o.json(), "lc": lc.label}));
        }
    }
    // ---- transmitted evaluations changed while the LC sums stay fixed (default implementation only)
    if let Some(evs) = &proof.evals {
        if evs.is_empty() {
            ctx.skipped("evals-compensated", "no transmitted evaluations");
        } else {
            // plain change of one transmitted evaluation: either an LC equation or the opening must fail
            let i = below(rng, evs.len());
            let mut p2 = proof.clone();
            p2.evals.as_mut().unwrap()[i] += nz::<S>(rng);
            let o = check_lc::<S>(&tx, &ls.lcs, &ls.qs, &ls.evals, &p2, rng.next_u64());
            ctx.check(!o.is_accept(), "evals-perturbed", "check_combinations", desc.clone(), || json!({"outcome": o.json(), "position": i}));
            // compensated change: find an LC queried at z with two distinct polynomial labels a != b, both with non-zero
            // total coefficient; shift eval(a,z) by d and eval(b,z) by -d*ca/cb. Every LC equation that involves
            // only this pair keeps holding; to stay sound we recompute all LC claims from the shifted evaluations
            // and hand those (now false w.r.t. the committed polynomials) to the verifier.
            let mut pq: Vec<(String, PtOf<S>)> = Vec::new();
            for (l, (_, z)) in &ls.qs {
                let lc = match ls.lcs.iter().find(|x| &x.label == l) {
                    Some(lc) => lc,
                    None => continue, // spare entry naming no combination
                };
                for (_, t) in lc.iter() {
                    if let LCTerm::PolyLabel(pl) = t {
                        if !pq.contains(&(pl.clone(), z.clone())) {
                            pq.push((pl.clone(), z.clone()));
                        }
                    }
                }
            }
            pq.sort();
            if pq.len() != evs.len() {
                ctx.skipped("evals-compensated", "transmitted evaluation count differs from (polynomial, point) pairs");
            } else {
                let j = below(rng, pq.len());
                let mut shifted: std::collections::BTreeMap<(String, PtOf<S>), FOf<S>> =
                    pq.iter().cloned().zip(evs.iter().cloned()).collect();
                *shifted.get_mut(&pq[j]).unwrap() += nz::<S>(rng);
                let mut ev2 = Evaluations::new();
                for (l, (_, z)) in &ls.qs {
                    let lc = match ls.lcs.iter().find(|x| &x.label == l) {
                        Some(lc) => lc,
                        None => continue,
                    };
                    let mut v = FOf::<S>::zero();
                    for (c, t) in lc.iter() {
                        match t {
                            LCTerm::One => v += *c,
                            LCTerm::PolyLabel(pl) => v += *c * shifted[&(pl.clone(), z.clone())],
                        }
                    }
                    ev2.insert((l.clone(), z.clone()), v);
                }
                let mut p3 = proof.clone();
                p3.evals = Some(pq.iter().map(|k| shifted[k]).collect());
                let o = check_lc::<S>(&tx, &ls.lcs, &ls.qs, &ev2, &p3, rng.next_u64());
                ctx.check(!o.is_accept(), "evals-compensated", "check_combinations", desc.clone(), || json!({"outcome": o.json(), "shifted": pq[j].0}));
            }
        }
    }
}

pub fn run(ctx: &mut Ctx) {
    crate::schemes::set_custom_params(true);
    for_each_scheme!(ctx, S, {
        let n = ctx.n(120, 2400) / <S as Scheme>::WEIGHT.max(1);
        ctx.run_cases(<S as Scheme>::NAME, n.max(4), |ctx, _i, rng| case::<S>(ctx, rng));
    });
    // the same cases on configurations with more than a thousand coefficients
    crate::schemes::set_large(true);
    for_each_scheme!(ctx, S, {
        let n = if ctx.is_thorough() { 6 } else { 2 };
        ctx.run_cases(&format!("{}/large", <S as Scheme>::NAME), n, |ctx, _i, rng| case::<S>(ctx, rng));
    });
    crate::schemes::set_large(false);
}
