//! C11 — prover and verifier transcripts stay in lock-step over operation histories on one
//! sponge; proofs are bound to the transcript state.
use crate::for_each_scheme;
use crate::probe::{fingerprint, mon_rng, Sp};
use crate::rt::{attempt, decide, Ctx, Out};
use crate::scen::*;
use crate::schemes::{below, range, Scheme};
use ark_crypto_primitives::sponge::CryptographicSponge;
use ark_ff::{One, UniformRand, Zero};
use ark_poly::Polynomial;
use ark_poly_commit::{BatchLCProof, Evaluations, LCTerm, LinearCombination, PolynomialCommitment, QuerySet};
use rand_chacha::ChaCha20Rng;
use rand_core::RngCore;
use serde_json::{json, Value};

enum Op<S: Scheme> {
    Open { idx: Vec<usize>, z: PtOf<S>, values: Vec<FOf<S>> },
    Batch { q: Queries<S> },
    Lc { lcs: Vec<LinearCombination<FOf<S>>>, qs: QuerySet<PtOf<S>>, evals: Evaluations<PtOf<S>, FOf<S>> },
}

enum Pf<S: Scheme> {
    Open(ProofOf<S>),
    Batch(BatchProofOf<S>),
    Lc(BatchLCProof<FOf<S>, BatchProofOf<S>>),
}

impl<S: Scheme> Op<S> {
    fn json(&self, tx: &Tx<S>) -> Value {
        match self {
            Op::Open { idx, .. } => json!({"op": "open", "polys": idx.iter().map(|&i| tx.polys[i].label().clone()).collect::<Vec<_>>()}),
            Op::Batch { q } => json!({"op": "batch_open", "queries": q.json()}),
            Op::Lc { lcs, .. } => json!({"op": "open_combinations", "terms": lcs.iter().map(|l| l.terms.len()).collect::<Vec<_>>()}),
        }
    }
    fn polys(&self, tx: &Tx<S>) -> Vec<usize> {
        match self {
            Op::Open { idx, .. } => idx.clone(),
            Op::Batch { q } => q.groups.iter().flat_map(|g| g.2.iter().map(|l| tx.idx_of(l))).collect(),
            Op::Lc { lcs, .. } => lcs
                .iter()
                .flat_map(|l| l.terms.iter().filter_map(|(_, t)| if let LCTerm::PolyLabel(p) = t { Some(tx.idx_of(p)) } else { None }))
                .collect(),
        }
    }
}

fn gen_op<S: Scheme>(tx: &Tx<S>, rng: &mut ChaCha20Rng) -> Op<S> {
    let unb: Vec<usize> = (0..tx.polys.len()).filter(|&i| tx.specs[i].bound.is_none()).collect();
    match rng.next_u32() % 3 {
        0 => {
            let k = range(rng, 1, tx.polys.len().min(3));
            let perm = permutation(tx.polys.len(), rng);
            let idx: Vec<usize> = perm.into_iter().take(k).collect();
            let z = S::gen_point(&tx.w.cfg, rng);
            let values = idx.iter().map(|&i| tx.polys[i].evaluate(&z)).collect();
            Op::Open { idx, z, values }
        }
        1 if !unb.is_empty() => {
            // 1..2 combinations over unbounded polynomials (coefficients incl. 0 / constants), queried under 1..2
            // point labels that may share one point value
            let nlc = range(rng, 1, 2);
            let mut lcs = Vec::new();
            for j in 0..nlc {
                let mut lc = LinearCombination::empty(format!("lc{}", j));
                let n = range(rng, 1, 3);
                for _ in 0..n {
                    let i = unb[below(rng, unb.len())];
                    let c = if rng.next_u32() % 5 == 0 { ark_ff::Zero::zero() } else { FOf::<S>::rand(rng) };
                    lc.push((c, LCTerm::PolyLabel(tx.polys[i].label().clone())));
                }
                if rng.next_u32() % 2 == 0 {
                    lc.push((FOf::<S>::rand(rng), LCTerm::One));
                }
                lcs.push(lc);
            }
            let z1 = S::gen_point(&tx.w.cfg, rng);
            let z2 = if rng.next_u32() % 2 == 0 { z1.clone() } else { S::gen_point(&tx.w.cfg, rng) };
            let mut qs = QuerySet::new();
            for (k, lc) in lcs.iter().enumerate() {
                qs.insert((lc.label.clone(), ("zeta".to_string(), z1.clone())));
                if k == 0 && rng.next_u32() % 2 == 0 {
                    qs.insert((lc.label.clone(), ("alpha".to_string(), z2.clone())));
                }
            }
            let mut evals = Evaluations::new();
            let known = qs.clone();
            if S::default_combinations() && rng.next_u32() % 2 == 0 {
                // an entry naming none of the combinations (sorting before all of them): the default implementation
                // skips it on both sides
                qs.insert(("!spare".to_string(), ("zeta".to_string(), z1.clone())));
            }
            for (l, (_, z)) in &known {
                let lc = lcs.iter().find(|x| &x.label == l).unwrap();
                let mut v: FOf<S> = ark_ff::Zero::zero();
                for (c, t) in lc.iter() {
                    match t {
                        LCTerm::One => v += *c,
                        LCTerm::PolyLabel(pl) => v += *c * tx.polys[tx.idx_of(pl)].evaluate(z),
                    }
                }
                evals.insert((l.clone(), z.clone()), v);
            }
            Op::Lc { lcs, qs, evals }
        }
        _ => Op::Batch { q: gen_queries::<S>(&tx.w.cfg, &tx.polys, range(rng, 1, 3), rng) },
    }
}

fn prove<S: Scheme>(tx: &Tx<S>, op: &Op<S>, sp: &mut Sp<FOf<S>>, seed: u64) -> Result<Pf<S>, Out> {
    let mut r = mon_rng(seed);
    match op {
        Op::Open { idx, z, .. } => open::<S>(tx, idx, z, sp, seed).map(Pf::Open),
        Op::Batch { q } => {
            let ident: Vec<usize> = (0..tx.polys.len()).collect();
            batch_open::<S>(tx, &ident, &q.qs, sp, seed).map(Pf::Batch)
        }
        Op::Lc { lcs, qs, .. } => attempt(|| {
            PcOf::<S>::open_combinations(&tx.w.ck, lcs.iter(), tx.polys.iter(), tx.c.comms.iter(), qs, sp, tx.c.states.iter(), Some(&mut r))
        })
        .map(Pf::Lc),
    }
}

fn verify<S: Scheme>(tx: &Tx<S>, op: &Op<S>, pf: &Pf<S>, sp: &mut Sp<FOf<S>>) -> Out {
    match (op, pf) {
        (Op::Open { idx, z, values }, Pf::Open(p)) => {
            let comms: Vec<&LComm<S>> = idx.iter().map(|&i| &tx.c.comms[i]).collect();
            check::<S>(&tx.w.vk, &comms, z, values, p, sp, 9)
        }
        (Op::Batch { q }, Pf::Batch(p)) => batch_check::<S>(&tx.w.vk, &tx.c.comms, &q.qs, &q.evals, p, sp, 9),
        (Op::Lc { lcs, qs, evals }, Pf::Lc(p)) => {
            let mut r = mon_rng(9);
            decide(|| PcOf::<S>::check_combinations(&tx.w.vk, lcs.iter(), tx.c.comms.iter(), qs, evals, p, sp, &mut r))
        }
        _ => Out::Err("operation / proof kind mismatch (harness)".into()),
    }
}

fn case<S: Scheme>(ctx: &mut Ctx, rng: &mut ChaCha20Rng) {
    let thorough = ctx.is_thorough();
    let tx = match gen_tx::<S>(rng, thorough, 4) {
        Ok(t) => t,
        Err(_) => return ctx.skipped("baseline", "honest pipeline refused (reported under C01/C17)"),
    };
    let n = range(rng, 2, 6);
    let ops: Vec<Op<S>> = (0..n).map(|_| gen_op::<S>(&tx, rng)).collect();
    let desc = json!({"tx": tx.json(), "history": ops.iter().map(|o| o.json(&tx)).collect::<Vec<_>>()});
    // ---- prover threads one sponge through the history
    let mut sp_p = tx.sponge();
    let mut proofs: Vec<Pf<S>> = Vec::new();
    let mut p_states: Vec<Sp<FOf<S>>> = vec![sp_p.clone()];
    for (i, op) in ops.iter().enumerate() {
        match prove::<S>(&tx, op, &mut sp_p, rng.next_u64()) {
            Ok(p) => proofs.push(p),
            Err(o) => {
                return ctx.violated("history-prover-refused", "open", desc, json!({"position": i, "outcome": o.json()}));
            }
        }
        p_states.push(sp_p.clone());
    }
    // ---- verifier follows in the same order
    let mut sp_v = tx.sponge();
    let mut v_states: Vec<Sp<FOf<S>>> = vec![sp_v.clone()];
    for (i, (op, pf)) in ops.iter().zip(&proofs).enumerate() {
        let o = verify::<S>(&tx, op, pf, &mut sp_v);
        if o != Out::Accept {
            return ctx.violated("lock-step-accept", "check", desc, json!({"position": i, "outcome": o.json()}));
        }
        let fp_p: Vec<FOf<S>> = fingerprint(&p_states[i + 1]);
        let fp_v: Vec<FOf<S>> = fingerprint(&sp_v);
        if fp_p != fp_v {
            return ctx.violated("lock-step-state", "check", desc, json!({"position": i,
                "prover_trace_len": p_states[i + 1].log.len() - p_states[i].log.len(), "verifier_trace_len": sp_v.log.len() - v_states[i].log.len(),
                "prover_trace": crate::rt::clip(&p_states[i + 1].trace(), 300), "verifier_trace": crate::rt::clip(&sp_v.trace(), 300)}));
        }
        v_states.push(sp_v.clone());
    }
    ctx.count("operations", n as u64);
    ctx.count("sponge-events", (sp_p.log.len() + sp_v.log.len()) as u64);
    ctx.held("lock-step-accept", desc.clone());
    ctx.held("lock-step-state", desc.clone());
    // ---- whatever the prover answers, the verifier follows: combinations of shapes a scheme may or may not admit
    // (one degree-bounded polynomial plus a constant; a bounded polynomial with coefficient 2) are proved at the end
    // of the history - if the prover returns a proof for the true values, the verifier must accept it in lock-step
    if let Some(i) = (0..tx.polys.len()).find(|&i| tx.specs[i].bound.is_some()) {
        let l = tx.polys[i].label().clone();
        let mut lc = LinearCombination::empty("edge");
        let two = FOf::<S>::one() + FOf::<S>::one();
        let shape = if rng.next_u32() % 2 == 0 {
            lc.push((FOf::<S>::one(), LCTerm::PolyLabel(l)));
            lc.push((two, LCTerm::One));
            "bounded + constant"
        } else {
            lc.push((two, LCTerm::PolyLabel(l)));
            "2 * bounded"
        };
        let z = S::gen_point(&tx.w.cfg, rng);
        let mut qs = QuerySet::new();
        qs.insert(("edge".to_string(), ("z".to_string(), z.clone())));
        let mut v = FOf::<S>::zero();
        for (cf, t) in lc.iter() {
            match t {
                LCTerm::One => v += *cf,
                LCTerm::PolyLabel(pl) => v += *cf * tx.polys[tx.idx_of(pl)].evaluate(&z),
            }
        }
        let mut evals = Evaluations::new();
        evals.insert(("edge".to_string(), z.clone()), v);
        let op = Op::Lc { lcs: vec![lc], qs, evals };
        let (mut sp, mut sv) = (sp_p.clone(), sp_v.clone());
        match prove::<S>(&tx, &op, &mut sp, rng.next_u64()) {
            Err(_) => ctx.count(&format!("edge-combination-refused-by-prover:{}", shape), 1),
            Ok(pf) => {
                let o = verify::<S>(&tx, &op, &pf, &mut sv);
                let same: bool = fingerprint::<FOf<S>, _>(&sp) == fingerprint::<FOf<S>, _>(&sv);
                let mut d = desc.clone();
                d["edge_combination"] = json!(shape);
                ctx.check(o == Out::Accept && same, "prover-answer-accepted-in-lock-step", "check_combinations", d, || json!({"outcome": o.json(), "states_equal": same}));
            }
        }
    }
    // ---- negative: a proof is not accepted under a different transcript state
    // the transcript binds a proof only through a non-trivial witness: for plain openings some polynomial must be
    // non-constant, for combinations some COMBINED polynomial must be (0*p + c, or p - p, is constant)
    let nonconst = |op: &Op<S>| match op {
        Op::Lc { lcs, .. } => lcs.iter().any(|lc| {
            let mut comb = <POf<S> as ark_ff::Zero>::zero();
            for (c, t) in lc.iter() {
                if let LCTerm::PolyLabel(l) = t {
                    comb += (*c, tx.polys[tx.idx_of(l)].polynomial());
                }
            }
            !S::is_constant(&comb) && !ark_ff::Zero::is_zero(&comb)
        }),
        _ => op.polys(&tx).iter().any(|&i| !S::is_constant(tx.polys[i].polynomial())),
    };
    // linear codes without the well-formedness challenge bind a proof through the column positions alone; for
    // codewords of a few entries those coincide under two transcripts with noticeable probability
    let nonconst = |op: &Op<S>| nonconst(op) && !op.polys(&tx).iter().all(|&i| S::transcript_binds_weakly(&tx.w, tx.polys[i].polynomial()));
    // (a) extra absorb before operation i on the verifier side
    {
        let i = below(rng, n);
        if nonconst(&ops[i]) {
            let mut sp = v_states[i].clone();
            let mut junk = vec![0u8; range(rng, 1, 9)];
            rng.fill_bytes(&mut junk);
            sp.absorb(&junk);
            let o = verify::<S>(&tx, &ops[i], &proofs[i], &mut sp);
            let mut d = desc.clone();
            d["position"] = json!(i);
            ctx.check(!o.is_accept(), "different-prestate-rejected", "check", d, || json!({"outcome": o.json()}));
        } else {
            ctx.skipped("different-prestate-rejected", "all polynomials of the operation are constant (or bound through a few column positions only)");
        }
    }
    // (b) operation j (statement and proof) verified at position i != j
    {
        let i = below(rng, n);
        let mut j = below(rng, n);
        if i == j {
            j = (i + 1) % n;
        }
        if nonconst(&ops[j]) {
            let mut sp = v_states[i].clone();
            let o = verify::<S>(&tx, &ops[j], &proofs[j], &mut sp);
            let mut d = desc.clone();
            d["moved"] = json!({"from": j, "to": i});
            ctx.check(!o.is_accept(), "moved-proof-rejected", "check", d, || json!({"outcome": o.json()}));
        } else {
            ctx.skipped("moved-proof-rejected", "all polynomials of the operation are constant (or bound through a few column positions only)");
        }
    }
    let _ = FOf::<S>::one();
}

/// The API accepts any `CryptographicSponge`: the same three-operation history (open, batch_open, open) on a
/// Poseidon sponge over ANOTHER prime field than the scheme's scalar field (a smaller one where available, so that
/// one challenge of full size costs more than one native element). Lock-step must not depend on the sponge field.
fn foreign_sponge<S: Scheme, G: ark_ff::PrimeField>(ctx: &mut Ctx, rng: &mut ChaCha20Rng, gname: &str) {
    let tx = match gen_tx::<S>(rng, false, 3) {
        Ok(t) => t,
        Err(_) => return ctx.skipped("baseline", "honest pipeline refused (reported under C01/C17)"),
    };
    let desc = json!({"tx": tx.json(), "sponge_field": gname});
    let mut sp_p = crate::probe::sponge::<G>(&tx.pre);
    let mut sp_v = crate::probe::sponge::<G>(&tx.pre);
    let all: Vec<usize> = (0..tx.polys.len()).collect();
    for step in 0..3 {
        let ok = if step == 1 {
            let q = gen_queries::<S>(&tx.w.cfg, &tx.polys, range(rng, 1, 3), rng);
            let mut r = mon_rng(rng.next_u64());
            match attempt(|| PcOf::<S>::batch_open(&tx.w.ck, tx.polys.iter(), tx.c.comms.iter(), &q.qs, &mut sp_p, tx.c.states.iter(), Some(&mut r))) {
                Err(o) => Err(json!({"step": step, "batch_open": o.json()})),
                Ok(p) => {
                    let mut r = mon_rng(7);
                    let o = decide(|| PcOf::<S>::batch_check(&tx.w.vk, tx.c.comms.iter(), &q.qs, &q.evals, &p, &mut sp_v, &mut r));
                    if o == Out::Accept { Ok(()) } else { Err(json!({"step": step, "batch_check": o.json()})) }
                }
            }
        } else {
            let k = range(rng, 1, all.len().min(3));
            let idx: Vec<usize> = permutation(all.len(), rng).into_iter().take(k).collect();
            let z = S::gen_point(&tx.w.cfg, rng);
            let polys: Vec<&LPoly<S>> = idx.iter().map(|&i| &tx.polys[i]).collect();
            let comms: Vec<&LComm<S>> = idx.iter().map(|&i| &tx.c.comms[i]).collect();
            let states: Vec<&StateOf<S>> = idx.iter().map(|&i| &tx.c.states[i]).collect();
            let values: Vec<FOf<S>> = idx.iter().map(|&i| tx.polys[i].evaluate(&z)).collect();
            let mut r = mon_rng(rng.next_u64());
            match attempt(|| PcOf::<S>::open(&tx.w.ck, polys.clone(), comms.clone(), &z, &mut sp_p, states.clone(), Some(&mut r))) {
                Err(o) => Err(json!({"step": step, "open": o.json()})),
                Ok(p) => {
                    let mut r = mon_rng(7);
                    let o = decide(|| PcOf::<S>::check(&tx.w.vk, comms.clone(), &z, values.clone(), &p, &mut sp_v, Some(&mut r)));
                    if o == Out::Accept { Ok(()) } else { Err(json!({"step": step, "check": o.json()})) }
                }
            }
        };
        if let Err(e) = ok {
            return ctx.violated("lock-step-accept[foreign-field-sponge]", "check", desc, e);
        }
        let (fp, fv): (Vec<G>, Vec<G>) = (fingerprint(&sp_p), fingerprint(&sp_v));
        if fp != fv {
            return ctx.violated("lock-step-state[foreign-field-sponge]", "check", desc, json!({"step": step, "prover_events": sp_p.log.len(), "verifier_events": sp_v.log.len()}));
        }
    }
    ctx.held("lock-step-accept[foreign-field-sponge]", desc.clone());
    ctx.held("lock-step-state[foreign-field-sponge]", desc);
}

pub fn run(ctx: &mut Ctx) {
    crate::schemes::set_custom_params(true);
    for_each_scheme!(ctx, S, {
        let n = ctx.n(100, 2000) / <S as Scheme>::WEIGHT.max(1);
        ctx.run_cases(<S as Scheme>::NAME, n.max(4), |ctx, _i, rng| case::<S>(ctx, rng));
    });
    {
        use crate::schemes::*;
        type F381 = ark_bls12_381::Fr;
        type F377 = ark_bls12_377::Fr;
        let n = ctx.n(12, 200);
        // Hyrax and the linear-code schemes absorb scalar-field ELEMENTS; ark-crypto-primitives casts those into the
        // sponge field only when both fields have the same modulus (and aborts otherwise), so a foreign-field sponge
        // is outside their domain. The schemes below absorb bytes only.
        ctx.run_cases("marlin/sponge-jubjub-fr", n, |ctx, _i, rng| foreign_sponge::<MarlinS<E381>, JFr>(ctx, rng, "ed-on-bls12-381 Fr (252 bit)"));
        ctx.run_cases("marlin/sponge-bls12-377-fr", n, |ctx, _i, rng| foreign_sponge::<MarlinS<E381>, F377>(ctx, rng, "bls12-377 Fr (253 bit)"));
        ctx.run_cases("sonic/sponge-jubjub-fr", n, |ctx, _i, rng| foreign_sponge::<SonicS<E381>, JFr>(ctx, rng, "ed-on-bls12-381 Fr (252 bit)"));
        ctx.run_cases("pst13/sponge-jubjub-fr", n / 2, |ctx, _i, rng| foreign_sponge::<Pst13S<E381>, JFr>(ctx, rng, "ed-on-bls12-381 Fr (252 bit)"));
        ctx.run_cases("ipa/sponge-bls12-381-fr", n, |ctx, _i, rng| foreign_sponge::<IpaS, F381>(ctx, rng, "bls12-381 Fr (255 bit)"));
    }
    // the same cases on configurations with more than a thousand coefficients
    crate::schemes::set_large(true);
    for_each_scheme!(ctx, S, {
        let n = if ctx.is_thorough() { 6 } else { 2 };
        ctx.run_cases(&format!("{}/large", <S as Scheme>::NAME), n, |ctx, _i, rng| case::<S>(ctx, rng));
    });
    crate::schemes::set_large(false);
}
