//! Off-trait schemes (KZG10 core API, MultilinearPC, streaming KZG): completeness (C01) and
//! statement-perturbation (C02) monitors. The trait schemes are handled generically elsewhere.
use crate::ju::fe;
use crate::rt::{attempt, guard, Ctx, Out};
use crate::schemes::{below, ml_poly, pick_shape, range, skewed, uni_poly, Shape};
use ark_bls12_381::{Bls12_381 as E, Fr};
use ark_ff::{One, UniformRand, Zero};
use ark_poly::{univariate::DensePolynomial, DenseMultilinearExtension, DenseUVPolynomial, Polynomial};
use ark_poly_commit::kzg10::{self, KZG10};
use ark_poly_commit::multilinear_pc::MultilinearPC;
use ark_poly_commit::streaming_kzg::{CommitterKey as SCk, CommitterKeyStream, VerifierKey as SVk};
use ark_std::iterable::Reverse;
use rand_chacha::ChaCha20Rng;
use rand_core::RngCore;
use serde_json::{json, Value};

type UniPoly = DensePolynomial<Fr>;
type Kzg = KZG10<E, UniPoly>;

pub fn nonzero(rng: &mut impl RngCore) -> Fr {
    loop {
        let x = Fr::rand(rng);
        if !x.is_zero() {
            return x;
        }
    }
}

pub struct KzgWorld {
    pub pp: kzg10::UniversalParams<E>,
    pub max_degree: usize,
    pub supported: usize,
    pub hiding_sup: usize,
}

impl KzgWorld {
    pub fn powers(&self) -> kzg10::Powers<'static, E> {
        let g = self.pp.powers_of_g[..=self.supported].to_vec();
        let gg: Vec<_> = (0..=self.hiding_sup + 1).map(|i| self.pp.powers_of_gamma_g[&i]).collect();
        kzg10::Powers { powers_of_g: g.into(), powers_of_gamma_g: gg.into() }
    }
    pub fn vk(&self) -> kzg10::VerifierKey<E> {
        kzg10::VerifierKey {
            g: self.pp.powers_of_g[0],
            gamma_g: self.pp.powers_of_gamma_g[&0],
            h: self.pp.h,
            beta_h: self.pp.beta_h,
            prepared_h: self.pp.prepared_h.clone(),
            prepared_beta_h: self.pp.prepared_beta_h.clone(),
        }
    }
}

pub fn kzg_world(rng: &mut ChaCha20Rng) -> Result<KzgWorld, Out> {
    let large = crate::schemes::is_large();
    let max_degree = if large { range(rng, 1023, 2100) } else { skewed(rng, 1, 64) };
    let supported = if rng.next_u32() % 2 == 0 { max_degree } else { range(rng, if large { 1023 } else { 1 }, max_degree) };
    let hiding_sup = if large { range(rng, 1, 3) } else { range(rng, 1, supported) };
    let g2 = rng.next_u32() % 2 == 0;
    let pp = attempt(|| Kzg::setup(max_degree, g2, rng))?;
    Ok(KzgWorld { pp, max_degree, supported, hiding_sup })
}

pub struct KzgItem {
    pub poly: UniPoly,
    pub hiding: Option<usize>,
    pub comm: kzg10::Commitment<E>,
    pub rand: kzg10::Randomness<Fr, UniPoly>,
    pub z: Fr,
    pub v: Fr,
    pub proof: kzg10::Proof<E>,
    pub desc: Value,
}

pub fn kzg_item(w: &KzgWorld, rng: &mut ChaCha20Rng) -> Result<KzgItem, (String, Out, Value)> {
    let shape = pick_shape(rng);
    let deg = if rng.next_u32() % 3 == 0 { w.supported } else { below(rng, w.supported + 1) };
    let poly = uni_poly::<Fr>(shape, deg, rng);
    let hiding = if rng.next_u32() % 2 == 0 { Some(range(rng, 1, w.hiding_sup)) } else { None };
    let desc = json!({"max_degree": w.max_degree, "supported": w.supported, "hiding_supported": w.hiding_sup,
        "shape": format!("{:?}", shape), "degree": poly.degree(), "hiding": hiding});
    let powers = w.powers();
    let (comm, rand) = attempt(|| Kzg::commit(&powers, &poly, hiding, Some(rng))).map_err(|o| ("commit".to_string(), o, desc.clone()))?;
    let z = match rng.next_u32() % 8 {
        0 => Fr::zero(),
        1 => Fr::one(),
        _ => Fr::rand(rng),
    };
    let v = poly.evaluate(&z);
    let proof = attempt(|| Kzg::open(&powers, &poly, z, &rand)).map_err(|o| ("open".to_string(), o, desc.clone()))?;
    Ok(KzgItem { poly, hiding, comm, rand, z, v, proof, desc })
}

fn kzg_c01(ctx: &mut Ctx, rng: &mut ChaCha20Rng) {
    let w = match kzg_world(rng) {
        Ok(w) => w,
        Err(o) => {
            ctx.violated("honest-pipeline-refused", "KZG10::setup", json!({}), json!({"outcome": o.json()}));
            return;
        }
    };
    let vk = w.vk();
    let n = range(rng, 1, 5);
    let mut items = Vec::new();
    for _ in 0..n {
        match kzg_item(&w, rng) {
            Ok(it) => items.push(it),
            Err((stage, o, desc)) => {
                ctx.violated("honest-pipeline-refused", &format!("KZG10::{}", stage), desc, json!({"outcome": o.json()}));
                return;
            }
        }
    }
    for it in &items {
        let o = crate::rt::decide(|| Kzg::check(&vk, &it.comm, it.z, it.v, &it.proof));
        ctx.check(o == Out::Accept, "single-accept", "KZG10::check", it.desc.clone(), || json!({"outcome": o.json()}));
    }
    let comms: Vec<_> = items.iter().map(|i| i.comm).collect();
    let zs: Vec<_> = items.iter().map(|i| i.z).collect();
    let vs: Vec<_> = items.iter().map(|i| i.v).collect();
    let proofs: Vec<_> = items.iter().map(|i| i.proof).collect();
    let o = crate::rt::decide(|| Kzg::batch_check(&vk, &comms, &zs, &vs, &proofs, rng));
    ctx.check(o == Out::Accept, "batch-accept", "KZG10::batch_check", json!({"items": items.iter().map(|i| i.desc.clone()).collect::<Vec<_>>()}), || json!({"outcome": o.json()}));
}

// ------------------------------------------------------------------ multilinear PST

pub struct MlItem {
    pub nv: usize,
    pub poly: DenseMultilinearExtension<Fr>,
    pub ck: ark_poly_commit::multilinear_pc::data_structures::CommitterKey<E>,
    pub vk: ark_poly_commit::multilinear_pc::data_structures::VerifierKey<E>,
    pub comm: ark_poly_commit::multilinear_pc::data_structures::Commitment<E>,
    pub z: Vec<Fr>,
    pub v: Fr,
    pub proof: ark_poly_commit::multilinear_pc::data_structures::Proof<E>,
    pub desc: Value,
}

pub fn ml_item(rng: &mut ChaCha20Rng, max_nv: usize) -> Result<MlItem, (String, Out, Value)> {
    let setup_nv = range(rng, 1, max_nv);
    let nv = if rng.next_u32() % 2 == 0 { setup_nv } else { range(rng, 1, setup_nv) };
    let shape = pick_shape(rng);
    let desc = json!({"setup_nv": setup_nv, "nv": nv, "shape": format!("{:?}", shape)});
    let pp = guard(|| MultilinearPC::<E>::setup(setup_nv, rng)).map_err(|p| ("setup".to_string(), Out::Panic(p), desc.clone()))?;
    let (ck, vk) = guard(|| MultilinearPC::<E>::trim(&pp, nv)).map_err(|p| ("trim".to_string(), Out::Panic(p), desc.clone()))?;
    let poly = ml_poly::<Fr>(nv, shape, rng);
    let comm = guard(|| MultilinearPC::<E>::commit(&ck, &poly)).map_err(|p| ("commit".to_string(), Out::Panic(p), desc.clone()))?;
    let z: Vec<Fr> = (0..nv).map(|_| crate::schemes::pt_fe(rng)).collect();
    let v = poly.evaluate(&z);
    let proof = guard(|| MultilinearPC::<E>::open(&ck, &poly, &z)).map_err(|p| ("open".to_string(), Out::Panic(p), desc.clone()))?;
    Ok(MlItem { nv, poly, ck, vk, comm, z, v, proof, desc })
}

pub fn ml_check(it: &MlItem, comm: &ark_poly_commit::multilinear_pc::data_structures::Commitment<E>, z: &[Fr], v: Fr) -> Out {
    match guard(|| MultilinearPC::<E>::check(&it.vk, comm, z, v, &it.proof)) {
        Ok(true) => Out::Accept,
        Ok(false) => Out::Reject,
        Err(p) => Out::Panic(p),
    }
}

fn ml_c01(ctx: &mut Ctx, rng: &mut ChaCha20Rng) {
    let max_nv = if ctx.is_thorough() { 8 } else { 6 };
    match ml_item(rng, max_nv) {
        Err((stage, o, desc)) => ctx.violated("honest-pipeline-refused", &format!("MultilinearPC::{}", stage), desc, json!({"outcome": o.json()})),
        Ok(it) => {
            let o = ml_check(&it, &it.comm, &it.z, it.v);
            ctx.check(o == Out::Accept, "single-accept", "MultilinearPC::check", it.desc.clone(), || json!({"outcome": o.json()}));
        }
    }
}

// ------------------------------------------------------------------ streaming KZG

pub struct StreamWorld {
    pub ck: SCk<E>,
    pub vk: SVk<E>,
    pub max_degree: usize,
    pub max_pts: usize,
}

pub fn stream_world(rng: &mut ChaCha20Rng, max_deg_cap: usize) -> Result<StreamWorld, Out> {
    let max_degree = if crate::schemes::is_large() { range(rng, 1023, 2100) } else { skewed(rng, 1, max_deg_cap) };
    stream_world_deg(rng, max_degree)
}

pub fn stream_world_deg(rng: &mut ChaCha20Rng, max_degree: usize) -> Result<StreamWorld, Out> {
    let max_pts = range(rng, 1, 8);
    let ck = guard(|| SCk::<E>::new(max_degree, max_pts, rng)).map_err(Out::Panic)?;
    let vk = SVk::from(&ck);
    // the key holds min(max_degree, max_eval_points) + 1 G2 powers: that is the usable point count
    let max_pts = ck.max_eval_points().max(1).min(max_pts);
    Ok(StreamWorld { ck, vk, max_degree, max_pts })
}

pub fn eval_le(p: &[Fr], x: &Fr) -> Fr {
    p.iter().rev().fold(Fr::zero(), |acc, c| acc * x + c)
}

pub fn stream_poly(w: &StreamWorld, rng: &mut ChaCha20Rng) -> (Vec<Fr>, Shape) {
    let shape = pick_shape(rng);
    let deg = if rng.next_u32() % 3 == 0 { w.max_degree } else { below(rng, w.max_degree + 1) };
    let mut c = uni_poly::<Fr>(shape, deg, rng).coeffs;
    if c.is_empty() {
        // the slice API takes explicit coefficient vectors; the zero polynomial is [0]
        c.push(Fr::zero());
    }
    (c, shape)
}

fn stream_c01(ctx: &mut Ctx, rng: &mut ChaCha20Rng) {
    let w = match stream_world(rng, 128) {
        Ok(w) => w,
        Err(o) => {
            ctx.violated("honest-pipeline-refused", "streaming::CommitterKey::new", json!({}), json!({"outcome": o.json()}));
            return;
        }
    };
    let (poly, shape) = stream_poly(&w, rng);
    let alpha = crate::schemes::pt_fe(rng);
    let buf = [1usize, 2, 3, 7, 64, 1 << 20][below(rng, 6)];
    let desc = json!({"max_degree": w.max_degree, "max_points": w.max_pts, "len": poly.len(), "shape": format!("{:?}", shape), "msm_buffer": buf});
    // time prover
    let r = guard(|| {
        let c = w.ck.commit(&poly);
        let (ev, pf) = w.ck.open(&poly, &alpha);
        (c, ev, pf)
    });
    match r {
        Err(p) => ctx.violated("honest-pipeline-refused", "streaming::time", desc.clone(), json!({"panic": p})),
        Ok((c, ev, pf)) => {
            let truth = eval_le(&poly, &alpha);
            let ok = guard(|| w.vk.verify(&c, &alpha, &ev, &pf).is_ok());
            let good = ev == truth && ok == Ok(true);
            ctx.check(good, "single-accept", "streaming::time::verify", desc.clone(), || json!({"eval_matches": ev == truth, "verify": format!("{:?}", ok)}));
        }
    }
    // space prover
    let r = guard(|| {
        let sck = CommitterKeyStream::from(&w.ck);
        let stream = Reverse(poly.as_slice());
        let c = sck.commit(&stream);
        let (ev, pf) = sck.open(&stream, &alpha, buf);
        let svk = SVk::from(&sck);
        (c, ev, pf, svk)
    });
    match r {
        Err(p) => ctx.violated("honest-pipeline-refused", "streaming::space", desc.clone(), json!({"panic": p})),
        Ok((c, ev, pf, svk)) => {
            let truth = eval_le(&poly, &alpha);
            let ok1 = guard(|| w.vk.verify(&c, &alpha, &ev, &pf).is_ok());
            let ok2 = guard(|| svk.verify(&c, &alpha, &ev, &pf).is_ok());
            let good = ev == truth && ok1 == Ok(true) && ok2 == Ok(true);
            ctx.check(good, "single-accept", "streaming::space::verify", desc.clone(), || json!({"eval_matches": ev == truth, "verify_time_vk": format!("{:?}", ok1), "verify_stream_vk": format!("{:?}", ok2)}));
        }
    }
    // multi-point, multi-polynomial (time prover)
    let npts = range(rng, 1, w.max_pts);
    let mut pts: Vec<Fr> = Vec::new();
    while pts.len() < npts {
        let x = crate::schemes::pt_fe(rng);
        if !pts.contains(&x) {
            pts.push(x);
        }
    }
    let npolys = range(rng, 1, 5);
    let polys: Vec<Vec<Fr>> = (0..npolys).map(|_| stream_poly(&w, rng).0).collect();
    let eta: Fr = u128::rand(rng).into();
    let mdesc = json!({"max_degree": w.max_degree, "max_points": w.max_pts, "npoints": npts, "npolys": npolys, "lens": polys.iter().map(|p| p.len()).collect::<Vec<_>>()});
    let r = guard(|| {
        let comms = w.ck.batch_commit(&polys);
        let refs: Vec<&Vec<Fr>> = polys.iter().collect();
        let pf = w.ck.batch_open_multi_points(&refs, &pts, &eta);
        (comms, pf)
    });
    match r {
        Err(p) => ctx.violated("honest-pipeline-refused", "streaming::batch_open_multi_points", mdesc, json!({"panic": p})),
        Ok((comms, pf)) => {
            let evals: Vec<Vec<Fr>> = polys.iter().map(|p| pts.iter().map(|x| eval_le(p, x)).collect()).collect();
            let ok = guard(|| w.vk.verify_multi_points(&comms, &pts, &evals, &pf, &eta).is_ok());
            ctx.check(ok == Ok(true), "batch-accept", "streaming::verify_multi_points", mdesc, || json!({"verify": format!("{:?}", ok), "eta": fe(&eta)}));
        }
    }
}

pub fn c01(ctx: &mut Ctx) {
    let n = ctx.n(120, 2500);
    ctx.run_cases("kzg10", n, |ctx, _i, rng| kzg_c01(ctx, rng));
    ctx.run_cases("mlpst", n, |ctx, _i, rng| ml_c01(ctx, rng));
    ctx.run_cases("streaming", n, |ctx, _i, rng| stream_c01(ctx, rng));
}

// ====================================================================== C02

fn not_accept(ctx: &mut Ctx, o: &Out, class: &str, entry: &str, desc: Value) {
    ctx.count(&format!("outcome:{}:{}", entry, o.tag()), 1);
    ctx.check(!o.is_accept(), class, entry, desc, || json!({"outcome": o.json(), "expected": "reject | err | panic"}));
}

fn kzg_c02(ctx: &mut Ctx, rng: &mut ChaCha20Rng) {
    let w = match kzg_world(rng) {
        Ok(w) => w,
        Err(_) => return ctx.skipped("baseline", "setup refused"),
    };
    let vk = w.vk();
    let n = range(rng, 2, 4);
    let mut items = Vec::new();
    for _ in 0..n {
        match kzg_item(&w, rng) {
            Ok(it) => items.push(it),
            Err(_) => return ctx.skipped("baseline", "honest pipeline refused (reported under C01)"),
        }
    }
    let comms: Vec<_> = items.iter().map(|i| i.comm).collect();
    let zs: Vec<_> = items.iter().map(|i| i.z).collect();
    let vs: Vec<_> = items.iter().map(|i| i.v).collect();
    let proofs: Vec<_> = items.iter().map(|i| i.proof).collect();
    for (i, it) in items.iter().enumerate() {
        let (d, dname) = super::c02::delta::<Fr>(rng.next_u32(), it.v, rng);
        let mut desc = it.desc.clone();
        desc["delta"] = json!(dname);
        desc["position"] = json!(i);
        let o = crate::rt::decide(|| Kzg::check(&vk, &it.comm, it.z, it.v + d, &it.proof));
        not_accept(ctx, &o, "value-perturbed", "KZG10::check", desc.clone());
        let mut vs2 = vs.clone();
        vs2[i] += d;
        let o = crate::rt::decide(|| Kzg::batch_check(&vk, &comms, &zs, &vs2, &proofs, rng));
        not_accept(ctx, &o, "value-perturbed", "KZG10::batch_check", desc.clone());
        // point
        let z2 = Fr::rand(rng);
        if it.poly.evaluate(&z2) != it.v {
            let o = crate::rt::decide(|| Kzg::check(&vk, &it.comm, z2, it.v, &it.proof));
            not_accept(ctx, &o, "point-replaced", "KZG10::check", desc.clone());
            let mut zs2 = zs.clone();
            zs2[i] = z2;
            let o = crate::rt::decide(|| Kzg::batch_check(&vk, &comms, &zs2, &vs, &proofs, rng));
            not_accept(ctx, &o, "point-replaced", "KZG10::batch_check", desc.clone());
        } else {
            ctx.skipped("point-replaced", "perturbed claim is still true (constant polynomials / no other point)");
        }
        // commitment to q != p
        let q = uni_poly::<Fr>(Shape::Full, it.poly.degree().max(1).min(w.supported), rng);
        if q.evaluate(&it.z) != it.v {
            let powers = w.powers();
            if let Ok((cq, _)) = attempt(|| Kzg::commit(&powers, &q, it.hiding, Some(rng))) {
                let o = crate::rt::decide(|| Kzg::check(&vk, &cq, it.z, it.v, &it.proof));
                not_accept(ctx, &o, "commitment-replaced", "KZG10::check", desc.clone());
                let mut cs2 = comms.clone();
                cs2[i] = cq;
                let o = crate::rt::decide(|| Kzg::batch_check(&vk, &cs2, &zs, &vs, &proofs, rng));
                not_accept(ctx, &o, "commitment-replaced", "KZG10::batch_check", desc.clone());
            }
        }
    }
}

fn ml_c02(ctx: &mut Ctx, rng: &mut ChaCha20Rng) {
    let it = match ml_item(rng, 6) {
        Ok(it) => it,
        Err(_) => return ctx.skipped("baseline", "honest pipeline refused (reported under C01)"),
    };
    if ml_check(&it, &it.comm, &it.z, it.v) != Out::Accept {
        return ctx.skipped("baseline", "honest proof not accepted (reported under C01)");
    }
    let (d, dname) = super::c02::delta::<Fr>(rng.next_u32(), it.v, rng);
    let mut desc = it.desc.clone();
    desc["delta"] = json!(dname);
    let o = ml_check(&it, &it.comm, &it.z, it.v + d);
    not_accept(ctx, &o, "value-perturbed", "MultilinearPC::check", desc.clone());
    let mut z2 = it.z.clone();
    let j = below(rng, z2.len());
    z2[j] += nonzero(rng);
    if it.poly.evaluate(&z2) != it.v {
        let o = ml_check(&it, &it.comm, &z2, it.v);
        not_accept(ctx, &o, "point-replaced", "MultilinearPC::check", desc.clone());
    } else {
        ctx.skipped("point-replaced", "perturbed claim is still true (constant polynomials / no other point)");
    }
    let q = ml_poly::<Fr>(it.nv, Shape::Full, rng);
    if q.evaluate(&it.z) != it.v {
        if let Ok(cq) = guard(|| MultilinearPC::<E>::commit(&it.ck, &q)) {
            let o = ml_check(&it, &cq, &it.z, it.v);
            not_accept(ctx, &o, "commitment-replaced", "MultilinearPC::check", desc);
        }
    }
}

fn vr(r: Result<bool, String>) -> Out {
    match r {
        Ok(true) => Out::Accept,
        Ok(false) => Out::Reject,
        Err(p) => Out::Panic(p),
    }
}

fn stream_c02(ctx: &mut Ctx, rng: &mut ChaCha20Rng) {
    let w = match stream_world(rng, 64) {
        Ok(w) => w,
        Err(_) => return ctx.skipped("baseline", "setup refused"),
    };
    let (poly, shape) = stream_poly(&w, rng);
    let alpha = Fr::rand(rng);
    let desc = json!({"max_degree": w.max_degree, "len": poly.len(), "shape": format!("{:?}", shape)});
    let r = guard(|| (w.ck.commit(&poly), w.ck.open(&poly, &alpha)));
    let (c, (ev, pf)) = match r {
        Ok(x) => x,
        Err(_) => return ctx.skipped("baseline", "honest pipeline refused (reported under C01)"),
    };
    if vr(guard(|| w.vk.verify(&c, &alpha, &ev, &pf).is_ok())) != Out::Accept {
        return ctx.skipped("baseline", "honest proof not accepted (reported under C01)");
    }
    let (d, dname) = super::c02::delta::<Fr>(rng.next_u32(), ev, rng);
    let mut dj = desc.clone();
    dj["delta"] = json!(dname);
    let o = vr(guard(|| w.vk.verify(&c, &alpha, &(ev + d), &pf).is_ok()));
    not_accept(ctx, &o, "value-perturbed", "streaming::verify", dj);
    let a2 = Fr::rand(rng);
    if eval_le(&poly, &a2) != ev {
        let o = vr(guard(|| w.vk.verify(&c, &a2, &ev, &pf).is_ok()));
        not_accept(ctx, &o, "point-replaced", "streaming::verify", desc.clone());
    } else {
        ctx.skipped("point-replaced", "perturbed claim is still true (constant polynomials / no other point)");
    }
    let (q, _) = stream_poly(&w, rng);
    if eval_le(&q, &alpha) != ev {
        let cq = w.ck.commit(&q);
        let o = vr(guard(|| w.vk.verify(&cq, &alpha, &ev, &pf).is_ok()));
        not_accept(ctx, &o, "commitment-replaced", "streaming::verify", desc.clone());
    }
    // multi-point
    let npts = range(rng, 1, w.max_pts);
    let mut pts: Vec<Fr> = Vec::new();
    while pts.len() < npts {
        let x = Fr::rand(rng);
        if !pts.contains(&x) {
            pts.push(x);
        }
    }
    let npolys = range(rng, 1, 4);
    let polys: Vec<Vec<Fr>> = (0..npolys).map(|_| stream_poly(&w, rng).0).collect();
    let eta: Fr = u128::rand(rng).into();
    let mdesc = json!({"max_degree": w.max_degree, "npoints": npts, "npolys": npolys, "lens": polys.iter().map(|p| p.len()).collect::<Vec<_>>()});
    let r = guard(|| {
        let comms = w.ck.batch_commit(&polys);
        let refs: Vec<&Vec<Fr>> = polys.iter().collect();
        (comms, w.ck.batch_open_multi_points(&refs, &pts, &eta))
    });
    let (comms, pf) = match r {
        Ok(x) => x,
        Err(_) => return ctx.skipped("baseline", "honest pipeline refused (reported under C01)"),
    };
    let evals: Vec<Vec<Fr>> = polys.iter().map(|p| pts.iter().map(|x| eval_le(p, x)).collect()).collect();
    if vr(guard(|| w.vk.verify_multi_points(&comms, &pts, &evals, &pf, &eta).is_ok())) != Out::Accept {
        return ctx.skipped("baseline", "honest proof not accepted (reported under C01)");
    }
    for _ in 0..3 {
        let i = below(rng, npolys);
        let j = below(rng, npts);
        let (d, dname) = super::c02::delta::<Fr>(rng.next_u32(), evals[i][j], rng);
        let mut e2 = evals.clone();
        e2[i][j] += d;
        let mut dj = mdesc.clone();
        dj["delta"] = json!(dname);
        dj["position"] = json!([i, j]);
        let o = vr(guard(|| w.vk.verify_multi_points(&comms, &pts, &e2, &pf, &eta).is_ok()));
        not_accept(ctx, &o, "value-perturbed", "streaming::verify_multi_points", dj);
    }
    {
        let j = below(rng, npts);
        let mut p2 = pts.clone();
        p2[j] = Fr::rand(rng);
        if polys.iter().enumerate().any(|(i, p)| eval_le(p, &p2[j]) != evals[i][j]) && !pts.contains(&p2[j]) {
            let o = vr(guard(|| w.vk.verify_multi_points(&comms, &p2, &evals, &pf, &eta).is_ok()));
            not_accept(ctx, &o, "point-replaced", "streaming::verify_multi_points", mdesc.clone());
        } else {
            ctx.skipped("point-replaced", "perturbed claim is still true (constant polynomials / no other point)");
        }
    }
    // every list position in turn (a zero or constant polynomial may sit at any of them)
    for i in 0..npolys {
        let (q, _) = stream_poly(&w, rng);
        if pts.iter().enumerate().any(|(j, x)| eval_le(&q, x) != evals[i][j]) {
            let mut c2 = comms.clone();
            c2[i] = w.ck.commit(&q);
            let o = vr(guard(|| w.vk.verify_multi_points(&c2, &pts, &evals, &pf, &eta).is_ok()));
            let mut dj = mdesc.clone();
            dj["position"] = json!(i);
            dj["replaced_is_zero_polynomial"] = json!(polys[i].iter().all(|c| c.is_zero()));
            not_accept(ctx, &o, "commitment-replaced", "streaming::verify_multi_points", dj);
        }
    }
}

pub fn c02(ctx: &mut Ctx) {
    let n = ctx.n(100, 2000);
    ctx.run_cases("kzg10", n, |ctx, _i, rng| kzg_c02(ctx, rng));
    ctx.run_cases("mlpst", n, |ctx, _i, rng| ml_c02(ctx, rng));
    ctx.run_cases("streaming", n, |ctx, _i, rng| stream_c02(ctx, rng));
}

// ====================================================================== C05

fn kzg_c05(ctx: &mut Ctx, rng: &mut ChaCha20Rng) {
    let w = match kzg_world(rng) {
        Ok(w) => w,
        Err(_) => return ctx.skipped("baseline", "setup refused"),
    };
    let vk = w.vk();
    let n = range(rng, 2, 5);
    let mut items = Vec::new();
    for _ in 0..n {
        match kzg_item(&w, rng) {
            Ok(it) => items.push(it),
            Err(_) => return ctx.skipped("baseline", "honest pipeline refused (reported under C01)"),
        }
    }
    let comms: Vec<_> = items.iter().map(|i| i.comm).collect();
    let zs: Vec<_> = items.iter().map(|i| i.z).collect();
    let vs: Vec<_> = items.iter().map(|i| i.v).collect();
    let proofs: Vec<_> = items.iter().map(|i| i.proof).collect();
    let desc = json!({"items": items.iter().map(|i| i.desc.clone()).collect::<Vec<_>>()});
    let singles = |vals: &[Fr]| -> bool {
        items.iter().zip(vals).all(|(it, v)| crate::rt::decide(|| Kzg::check(&vk, &it.comm, it.z, *v, &it.proof)) == Out::Accept)
    };
    let batch = |c: &[kzg10::Commitment<E>], z: &[Fr], v: &[Fr], p: &[kzg10::Proof<E>], seed: u64| -> Out {
        let mut r = crate::probe::mon_rng(seed);
        crate::rt::decide(|| Kzg::batch_check(&vk, c, z, v, p, &mut r))
    };
    // all true + seed invariance
    let outs: Vec<Out> = (0..4).map(|s| batch(&comms, &zs, &vs, &proofs, 50 + s)).collect();
    ctx.check(outs.iter().all(|o| o == &outs[0]), "verifier-seed-invariance", "KZG10::batch_check", desc.clone(), || json!({"outcomes": outs.iter().map(|o| o.json()).collect::<Vec<_>>()}));
    ctx.check(outs[0].is_accept() && singles(&vs), "all-true-accepted", "KZG10::batch_check", desc.clone(), || json!({"batch": outs[0].json()}));
    // subsets
    for _ in 0..4 {
        let mut v2 = vs.clone();
        let mut changed = vec![];
        for i in 0..n {
            if rng.next_u32() % 2 == 0 || (i == n - 1 && changed.is_empty()) {
                v2[i] += nonzero(rng);
                changed.push(i);
            }
        }
        let refd = singles(&v2);
        let o = batch(&comms, &zs, &v2, &proofs, rng.next_u64());
        let mut d = desc.clone();
        d["false_positions"] = json!(changed);
        ctx.check(o.is_accept() == refd, "batch-vs-single-mismatch", "KZG10::batch_check", d.clone(), || json!({"batch": o.json(), "singles_all_accept": refd}));
        ctx.check(!o.is_accept(), "false-claim-accepted", "KZG10::batch_check", d, || json!({"batch": o.json()}));
    }
    // cancelling pairs (always across claims; each claim is its own point here)
    for _ in 0..4 {
        let a = below(rng, n);
        let mut b = below(rng, n);
        if a == b {
            b = (a + 1) % n;
        }
        let d = nonzero(rng);
        let mut v2 = vs.clone();
        v2[a] += d;
        v2[b] -= d;
        let o = batch(&comms, &zs, &v2, &proofs, rng.next_u64());
        let mut dj = desc.clone();
        dj["pair"] = json!([a, b]);
        ctx.count("cancelling:across-points", 1);
        ctx.check(!o.is_accept(), "cancelling-errors-accepted", "KZG10::batch_check", dj, || json!({"batch": o.json()}));
    }
    // list shapes: truncated / extended proof slices, with and without a false claim in the uncovered tail
    for falsify in [false, true] {
        let mut v2 = vs.clone();
        if falsify {
            v2[n - 1] += Fr::from(3u64);
        }
        let o = batch(&comms, &zs, &v2, &proofs[..n - 1], rng.next_u64());
        let mut dj = desc.clone();
        dj["with_false_claim"] = json!(falsify);
        dj["proofs"] = json!(n - 1);
        ctx.check(!o.is_accept(), "proof-list-truncated", "KZG10::batch_check", dj.clone(), || json!({"batch": o.json()}));
        let mut ext = proofs.clone();
        ext.push(proofs[0]);
        let o = batch(&comms, &zs, &v2, &ext, rng.next_u64());
        dj["proofs"] = json!(n + 1);
        ctx.check(!o.is_accept(), "proof-list-extended", "KZG10::batch_check", dj, || json!({"batch": o.json()}));
    }
    // permuted proofs
    {
        let mut pl = proofs.clone();
        pl.swap(0, 1);
        let refd = items.iter().zip(&pl).all(|(it, p)| crate::rt::decide(|| Kzg::check(&vk, &it.comm, it.z, it.v, p)) == Out::Accept);
        let o = batch(&comms, &zs, &vs, &pl, rng.next_u64());
        ctx.check(o.is_accept() == refd, "batch-vs-single-mismatch", "KZG10::batch_check", desc.clone(), || json!({"batch": o.json(), "singles_all_accept": refd, "swapped": [0, 1]}));
    }
}

fn stream_c05(ctx: &mut Ctx, rng: &mut ChaCha20Rng) {
    let w = match stream_world(rng, 64) {
        Ok(w) => w,
        Err(_) => return ctx.skipped("baseline", "setup refused"),
    };
    let npts = range(rng, 1, w.max_pts);
    let mut pts: Vec<Fr> = Vec::new();
    while pts.len() < npts {
        let x = Fr::rand(rng);
        if !pts.contains(&x) {
            pts.push(x);
        }
    }
    let npolys = range(rng, 2, 5);
    let polys: Vec<Vec<Fr>> = (0..npolys).map(|_| stream_poly(&w, rng).0).collect();
    let eta: Fr = u128::rand(rng).into();
    let desc = json!({"max_degree": w.max_degree, "npoints": npts, "npolys": npolys, "lens": polys.iter().map(|p| p.len()).collect::<Vec<_>>()});
    let r = guard(|| {
        let comms = w.ck.batch_commit(&polys);
        let refs: Vec<&Vec<Fr>> = polys.iter().collect();
        (comms, w.ck.batch_open_multi_points(&refs, &pts, &eta))
    });
    let (comms, pf) = match r {
        Ok(x) => x,
        Err(_) => return ctx.skipped("baseline", "honest pipeline refused (reported under C01)"),
    };
    let evals: Vec<Vec<Fr>> = polys.iter().map(|p| pts.iter().map(|x| eval_le(p, x)).collect()).collect();
    // reference: every claim checked on its own with an honestly produced single-point proof
    let singles = |e: &Vec<Vec<Fr>>| -> bool {
        let mut all = true;
        for (i, p) in polys.iter().enumerate() {
            for (j, x) in pts.iter().enumerate() {
                let (_, spf) = w.ck.open(p, x);
                if !w.vk.verify(&comms[i], x, &e[i][j], &spf).is_ok() {
                    all = false;
                }
            }
        }
        all
    };
    let o = vr(guard(|| w.vk.verify_multi_points(&comms, &pts, &evals, &pf, &eta).is_ok()));
    let refd = guard(|| singles(&evals)).unwrap_or(false);
    ctx.check(o.is_accept() && refd, "all-true-accepted", "streaming::verify_multi_points", desc.clone(), || json!({"batch": o.json(), "singles": refd}));
    for _ in 0..4 {
        let mut e2 = evals.clone();
        let mut changed = vec![];
        let want = range(rng, 1, 3.min(npolys * npts));
        while changed.len() < want {
            let i = below(rng, npolys);
            let j = below(rng, npts);
            if changed.contains(&(i, j)) {
                continue;
            }
            e2[i][j] += nonzero(rng);
            changed.push((i, j));
        }
        let o = vr(guard(|| w.vk.verify_multi_points(&comms, &pts, &e2, &pf, &eta).is_ok()));
        let refd = guard(|| singles(&e2)).unwrap_or(false);
        let mut d = desc.clone();
        d["false_positions"] = json!(changed);
        ctx.check(o.is_accept() == refd, "batch-vs-single-mismatch", "streaming::verify_multi_points", d.clone(), || json!({"batch": o.json(), "singles_all_accept": refd}));
        ctx.check(!o.is_accept(), "false-claim-accepted", "streaming::verify_multi_points", d, || json!({"batch": o.json()}));
    }
    for _ in 0..4 {
        // plain cancelling pair across polynomials at one point, or across points
        let (a, b) = if npts >= 2 && rng.next_u32() % 2 == 0 {
            let i = below(rng, npolys);
            ((i, 0usize), (below(rng, npolys), 1usize))
        } else {
            let j = below(rng, npts);
            ((0usize, j), (1usize, j))
        };
        if a == b {
            continue;
        }
        let d = nonzero(rng);
        let mut e2 = evals.clone();
        e2[a.0][a.1] += d;
        e2[b.0][b.1] -= d;
        let o = vr(guard(|| w.vk.verify_multi_points(&comms, &pts, &e2, &pf, &eta).is_ok()));
        let kind = if a.1 == b.1 { "within-point" } else { "across-points" };
        ctx.count(&format!("cancelling:{}", kind), 1);
        let mut dj = desc.clone();
        dj["pair"] = json!([a, b]);
        ctx.check(!o.is_accept(), "cancelling-errors-accepted", "streaming::verify_multi_points", dj, || json!({"batch": o.json()}));
    }
}

pub fn c05(ctx: &mut Ctx) {
    let n = ctx.n(100, 2000);
    ctx.run_cases("kzg10", n, |ctx, _i, rng| kzg_c05(ctx, rng));
    ctx.run_cases("streaming", n, |ctx, _i, rng| stream_c05(ctx, rng));
}

// ====================================================================== C12

fn kzg_c12(ctx: &mut Ctx, rng: &mut ChaCha20Rng) {
    use super::c12::roundtrip;
    let w = match kzg_world(rng) {
        Ok(w) => w,
        Err(_) => return ctx.skipped("baseline", "setup refused"),
    };
    let vk = w.vk();
    let mut items = Vec::new();
    for _ in 0..2 {
        match kzg_item(&w, rng) {
            Ok(it) => items.push(it),
            Err(_) => return ctx.skipped("baseline", "honest pipeline refused (reported under C01)"),
        }
    }
    let desc = json!({"items": items.iter().map(|i| i.desc.clone()).collect::<Vec<_>>()});
    let _ = roundtrip(ctx, "kzg10-universal-params", &w.pp, &desc, rng);
    let powers = w.powers();
    let _ = roundtrip(ctx, "kzg10-powers", &powers, &desc, rng);
    let vk2 = roundtrip(ctx, "kzg10-verifier-key", &vk, &desc, rng);
    let c2: Vec<_> = items.iter().filter_map(|it| roundtrip(ctx, "kzg10-commitment", &it.comm, &desc, rng)).collect();
    let p2: Vec<_> = items.iter().filter_map(|it| roundtrip(ctx, "kzg10-proof", &it.proof, &desc, rng)).collect();
    let _ = roundtrip(ctx, "kzg10-randomness", &items[0].rand, &desc, rng);
    if let Some(vk2) = vk2 {
        if c2.len() == items.len() && p2.len() == items.len() {
            let comms: Vec<_> = items.iter().map(|i| i.comm).collect();
            let zs: Vec<_> = items.iter().map(|i| i.z).collect();
            let vs: Vec<_> = items.iter().map(|i| i.v).collect();
            let mut bad = vs.clone();
            bad[1] += Fr::one();
            let proofs: Vec<_> = items.iter().map(|i| i.proof).collect();
            let run = |vk: &kzg10::VerifierKey<E>, c: &[kzg10::Commitment<E>], p: &[kzg10::Proof<E>], v: &[Fr]| {
                let mut r = crate::probe::mon_rng(3);
                let b = crate::rt::decide(|| Kzg::batch_check(vk, c, &zs, v, p, &mut r));
                let s = crate::rt::decide(|| Kzg::check(vk, &c[0], zs[0], v[0], &p[0]));
                (b, s)
            };
            let (a1, s1) = run(&vk, &comms, &proofs, &vs);
            let (b1, _) = run(&vk, &comms, &proofs, &bad);
            let (a2, s2) = run(&vk2, &c2, &p2, &vs);
            let (b2, _) = run(&vk2, &c2, &p2, &bad);
            ctx.check(a1.is_accept() == a2.is_accept() && b1.is_accept() == b2.is_accept(), "decision-preserved[batch_check]", "KZG10::batch_check", desc.clone(),
                || json!({"original": [a1.json(), b1.json()], "deserialized": [a2.json(), b2.json()]}));
            ctx.check(s1.is_accept() == s2.is_accept(), "decision-preserved[check]", "KZG10::check", desc, || json!({"original": s1.json(), "deserialized": s2.json()}));
        }
    }
}

fn ml_c12(ctx: &mut Ctx, rng: &mut ChaCha20Rng) {
    use super::c12::roundtrip;
    let it = match ml_item(rng, 5) {
        Ok(it) => it,
        Err(_) => return ctx.skipped("baseline", "honest pipeline refused (reported under C01)"),
    };
    let desc = it.desc.clone();
    let _ = roundtrip(ctx, "mlpst-committer-key", &it.ck, &desc, rng);
    let vk2 = roundtrip(ctx, "mlpst-verifier-key", &it.vk, &desc, rng);
    let c2 = roundtrip(ctx, "mlpst-commitment", &it.comm, &desc, rng);
    let p2 = roundtrip(ctx, "mlpst-proof", &it.proof, &desc, rng);
    if let (Some(vk2), Some(c2), Some(p2)) = (vk2, c2, p2) {
        let a1 = guard(|| MultilinearPC::<E>::check(&it.vk, &it.comm, &it.z, it.v, &it.proof));
        let b1 = guard(|| MultilinearPC::<E>::check(&it.vk, &it.comm, &it.z, it.v + Fr::one(), &it.proof));
        let a2 = guard(|| MultilinearPC::<E>::check(&vk2, &c2, &it.z, it.v, &p2));
        let b2 = guard(|| MultilinearPC::<E>::check(&vk2, &c2, &it.z, it.v + Fr::one(), &p2));
        ctx.check(a1 == a2 && b1 == b2, "decision-preserved[check]", "MultilinearPC::check", desc, || json!({"original": [format!("{:?}", a1), format!("{:?}", b1)], "deserialized": [format!("{:?}", a2), format!("{:?}", b2)]}));
    }
}

/// Universal parameters with more than 2^16 powers (the largest size explored anywhere in this machinery):
/// length-dependent shortcuts in hand-written (de)serializers sit at such round numbers.
fn huge_params_c12(ctx: &mut Ctx, rng: &mut ChaCha20Rng) {
    let d = (1usize << 16) + range(rng, 0, 40);
    let desc = json!({"max_degree": d, "powers_of_g": d + 1});
    match attempt(|| Kzg::setup(d, false, rng)) {
        Err(o) => ctx.violated("honest-pipeline-refused", "KZG10::setup", desc, json!({"outcome": o.json()})),
        Ok(pp) => {
            if let Some(pp2) = super::c12::roundtrip::<kzg10::UniversalParams<E>>(ctx, "universal-params", &pp, &desc, rng) {
                let same = pp2.powers_of_g.len() == pp.powers_of_g.len() && pp2.powers_of_g.last() == pp.powers_of_g.last() && pp2.powers_of_gamma_g.len() == pp.powers_of_gamma_g.len();
                ctx.check(same, "roundtrip[universal-params]", "deserialize", desc, || json!({"powers_of_g": [pp.powers_of_g.len(), pp2.powers_of_g.len()]}));
            }
        }
    }
}

pub fn c12(ctx: &mut Ctx) {
    let n = ctx.n(60, 1200);
    ctx.run_cases("kzg10/huge-params", 1, |ctx, _i, rng| huge_params_c12(ctx, rng));
    ctx.run_cases("kzg10", n, |ctx, _i, rng| kzg_c12(ctx, rng));
    ctx.run_cases("mlpst", n / 2, |ctx, _i, rng| ml_c12(ctx, rng));
}
