//! C18 — results do not depend on thread count or on the `parallel` feature.
//! The same seeded workload is executed under rayon pools of several sizes (in this process) and,
//! by the driver, under the build without the `parallel` feature; SHA-256 digests of every
//! deterministic serialized output are compared.
use crate::for_each_scheme;
use crate::rt::Ctx;
use crate::scen::*;
use crate::schemes::{range, Cfg, Kind, Scheme, Shape};
use ark_poly::Polynomial;
use rand_chacha::ChaCha20Rng;
use rand_core::{RngCore, SeedableRng};
use serde_json::json;
use std::collections::BTreeMap;

fn dig<T: ark_serialize::CanonicalSerialize>(x: &T) -> String {
    crate::ju::dig(x)
}

/// One complete deterministic execution; every random choice derives from `seed`.
/// A configuration whose polynomials have well over a thousand coefficients: size thresholds in parallel
/// code paths (blocked conversions, chunked sums) are far above what the small scenarios reach.
fn large_cfg<S: Scheme>(rng: &mut ChaCha20Rng, thorough: bool) -> Cfg {
    match S::KIND {
        Kind::Univariate => {
            let d = match rng.next_u32() % 4 {
                0 => [1023usize, 1024, 1025, 2047, 2048][(rng.next_u32() % 5) as usize],
                _ => range(rng, 1023, if thorough { 4200 } else { 2100 }),
            };
            let enforced = if S::BOUNDS && rng.next_u32() % 2 == 0 { Some(vec![d]) } else { None };
            Cfg { max_degree: d, num_vars: None, supported_degree: d, supported_hiding: 1, enforced }
        }
        Kind::Multivariate => Cfg { max_degree: 11, num_vars: Some(4), supported_degree: 11, supported_hiding: 1, enforced: None },
        Kind::Multilinear => Cfg { max_degree: 1, num_vars: Some(if rng.next_u32() % 2 == 0 { 10 } else { 12 }), supported_degree: 1, supported_hiding: 1, enforced: None },
    }
}

fn large_tx<S: Scheme>(rng: &mut ChaCha20Rng, thorough: bool) -> Result<Tx<S>, TxErr> {
    let cfg = large_cfg::<S>(rng, thorough);
    let w = make_world::<S>(&cfg, rng).map_err(|(st, o)| TxErr::Refused(st, o, cfg.json()))?;
    let top = S::max_poly_degree(&cfg);
    let mut specs = Vec::new();
    for (i, label) in ["big", "other"].iter().enumerate() {
        let bound = if S::BOUNDS && S::NAME == "ipa" && rng.next_u32() % 2 == 0 { Some(top) } else { cfg.enforced.as_ref().and_then(|e| if rng.next_u32() % 2 == 0 { Some(e[0]) } else { None }) };
        let hiding = if S::HIDING && rng.next_u32() % 2 == 0 { Some(1) } else { None };
        let deg = if i == 0 { top } else { range(rng, top / 2, top) };
        specs.push(Spec { label: label.to_string(), shape: if i == 0 { Shape::Full } else { Shape::Random }, deg, bound, hiding });
    }
    let polys = make_polys::<S>(&cfg, &specs, rng);
    let commit_seed = rng.next_u64();
    let c = commit::<S>(&w.ck, &polys, commit_seed).map_err(|o| TxErr::Refused("commit".into(), o, cfg.json()))?;
    Ok(Tx { w, specs, polys, c, pre: vec![7u8; 5], commit_seed })
}

fn workload<S: Scheme>(seed: [u8; 32], thorough: bool, large: bool) -> BTreeMap<String, String> {
    let mut out = BTreeMap::new();
    let mut rng = ChaCha20Rng::from_seed(seed);
    let tx = match if large { large_tx::<S>(&mut rng, thorough) } else { gen_tx::<S>(&mut rng, thorough, 4) } {
        Ok(t) => t,
        Err(TxErr::Refused(stage, o, _)) => {
            out.insert("pipeline".into(), format!("refused at {}: {}", stage, o.tag()));
            return out;
        }
    };
    if large {
        out.insert("size/coefficients-of-largest-polynomial".into(), format!("{}", tx.polys.iter().map(|p| p.degree() + 1).max().unwrap_or(0)));
    }
    out.insert("setup/universal-params".into(), dig(&tx.w.pp));
    out.insert("trim/committer-key".into(), dig(&tx.w.ck));
    out.insert("trim/verifier-key".into(), dig(&tx.w.vk));
    for (i, c) in tx.c.comms.iter().enumerate() {
        let kind = if tx.specs[i].hiding.is_some() { "seeded-hiding" } else { "non-hiding" };
        out.insert(format!("commit/{}-commitment[{}]", kind, i), dig(c.commitment()));
        out.insert(format!("commit/state[{}]", i), dig(&tx.c.states[i]));
    }
    let q = gen_queries::<S>(&tx.w.cfg, &tx.polys, range(&mut rng, 1, 3), &mut rng);
    let ident: Vec<usize> = (0..tx.polys.len()).collect();
    match batch_open::<S>(&tx, &ident, &q.qs, &mut tx.sponge(), rng.next_u64()) {
        Err(o) => {
            out.insert("batch_open/proof".into(), format!("refused: {}", o.tag()));
        }
        Ok(p) => {
            out.insert("batch_open/proof".into(), dig(&p));
            let o = batch_check::<S>(&tx.w.vk, &tx.c.comms, &q.qs, &q.evals, &p, &mut tx.sponge(), rng.next_u64());
            out.insert("batch_check/decision".into(), o.tag().to_string());
            let mut bad = q.evals.clone();
            if let Some(v) = bad.values_mut().next() {
                *v += FOf::<S>::from(1u64);
            }
            let o = batch_check::<S>(&tx.w.vk, &tx.c.comms, &q.qs, &bad, &p, &mut tx.sponge(), rng.next_u64());
            out.insert("batch_check/decision-on-false-claim".into(), o.tag().to_string());
        }
    }
    let g = &q.groups[0];
    let idx: Vec<usize> = g.2.iter().map(|l| tx.idx_of(l)).collect();
    if let Ok(p) = open::<S>(&tx, &idx, &g.1, &mut tx.sponge(), rng.next_u64()) {
        let bp: BatchProofOf<S> = vec![p.clone()].into();
        out.insert("open/proof".into(), dig(&bp));
        let comms: Vec<&LComm<S>> = idx.iter().map(|&i| &tx.c.comms[i]).collect();
        let vals: Vec<FOf<S>> = idx.iter().map(|&i| tx.polys[i].evaluate(&g.1)).collect();
        let o = check::<S>(&tx.w.vk, &comms, &g.1, &vals, &p, &mut tx.sponge(), 1);
        out.insert("check/decision".into(), o.tag().to_string());
    }
    out
}

#[cfg(feature = "par")]
fn in_pool<T: Send>(threads: usize, f: impl FnOnce() -> T + Send) -> T {
    rayon::ThreadPoolBuilder::new().num_threads(threads).build().expect("pool").install(f)
}

fn case<S: Scheme>(ctx: &mut Ctx, idx: u64, rng: &mut ChaCha20Rng, large: bool) {
    let mut seed = [0u8; 32];
    rng.fill_bytes(&mut seed);
    let thorough = ctx.is_thorough();
    #[allow(unused_mut)]
    let mut runs: Vec<(String, BTreeMap<String, String>)> = Vec::new();
    #[cfg(feature = "par")]
    {
        // pool sizes: 1 (reference), 2, 3, 16 and further sizes drawn per case from 4..=24 - a block-splitting
        // slip shows only for particular (thread count, length) pairs, so the sizes must vary across cases
        let mut pools: Vec<usize> = vec![1, 2, 3, 16];
        let extra = if large { 3 } else if thorough { 6 } else { 3 };
        let mut prng = ChaCha20Rng::from_seed(seed);
        prng.set_stream(99);
        while pools.len() < 4 + extra {
            let t = 4 + (prng.next_u32() % 21) as usize;
            if !pools.contains(&t) {
                pools.push(t);
            }
        }
        for &t in &pools {
            runs.push((format!("pool-{}", t), in_pool(t, || workload::<S>(seed, thorough, large))));
        }
        let reps = if large { 1 } else if thorough { 8 } else { 3 };
        for r in 0..reps {
            runs.push((format!("pool-16-repeat-{}", r), in_pool(16, || workload::<S>(seed, thorough, large))));
        }
        if thorough && !large && idx % 4 == 0 {
            // oversubscribed pool while other threads keep the cores busy
            let stop = std::sync::Arc::new(std::sync::atomic::AtomicBool::new(false));
            let hogs: Vec<_> = (0..8)
                .map(|_| {
                    let s = stop.clone();
                    std::thread::spawn(move || {
                        let mut x = 1u64;
                        while !s.load(std::sync::atomic::Ordering::Relaxed) {
                            x = x.wrapping_mul(6364136223846793005).wrapping_add(1);
                        }
                        x
                    })
                })
                .collect();
            runs.push(("pool-64-oversubscribed".into(), in_pool(64, || workload::<S>(seed, thorough, large))));
            stop.store(true, std::sync::atomic::Ordering::Relaxed);
            for h in hogs {
                let _ = h.join();
            }
        }
    }
    #[cfg(not(feature = "par"))]
    {
        runs.push(("no-parallel-feature".into(), workload::<S>(seed, thorough, large)));
        runs.push(("no-parallel-feature-repeat".into(), workload::<S>(seed, thorough, large)));
    }
    ctx.count("executions", runs.len() as u64);
    let base = runs[0].1.clone();
    ctx.count("outputs-compared", (base.len() * (runs.len() - 1)) as u64);
    // record reference digests for the cross-build comparison made by the driver
    let mut note = serde_json::Map::new();
    for (k, v) in &base {
        note.insert(format!("{}{}|{}|{}", S::NAME, if large { "/large" } else { "" }, idx, k), json!(v));
    }
    ctx.merge_note_map("digests", note);
    let mut mismatches: Vec<serde_json::Value> = Vec::new();
    for (name, r) in &runs[1..] {
        for (k, v) in &base {
            if r.get(k) != Some(v) {
                mismatches.push(json!({"execution": name, "output": k, "reference": v, "got": r.get(k)}));
            }
        }
        if r.len() != base.len() {
            mismatches.push(json!({"execution": name, "outputs": r.len(), "reference_outputs": base.len()}));
        }
    }
    let desc = json!({"executions": runs.iter().map(|(n, _)| n.clone()).collect::<Vec<_>>(), "outputs": base.keys().collect::<Vec<_>>(), "digests": base});
    if mismatches.is_empty() {
        ctx.held("same-digests-across-thread-counts", desc);
    } else {
        let what = mismatches[0]["output"].as_str().unwrap_or("?").split('[').next().unwrap_or("?").to_string();
        ctx.violated("same-digests-across-thread-counts", &what, desc, json!({"mismatches": mismatches.into_iter().take(6).collect::<Vec<_>>()}));
    }
}

/// Universal parameters with more than 2^14 powers (Sonic publishes a G2 power per degree): chunked table
/// construction only starts at such sizes. Only setup is repeated here, under one thread and two drawn pool sizes.
fn huge_setup(ctx: &mut Ctx, rng: &mut ChaCha20Rng) {
    use ark_poly_commit::PolynomialCommitment;
    type S = crate::schemes::SonicS<crate::schemes::E381>;
    let d = (1usize << 14) + 1 + (rng.next_u32() % 3000) as usize;
    let mut seed = [0u8; 32];
    rng.fill_bytes(&mut seed);
    let run = |_t: usize| -> String {
        let mut r = ChaCha20Rng::from_seed(seed);
        match crate::rt::attempt(|| PcOf::<S>::setup(d, None, &mut r)) {
            Ok(pp) => dig(&pp),
            Err(o) => format!("refused: {}", o.tag()),
        }
    };
    #[allow(unused_mut)]
    let mut runs: Vec<(String, String)> = Vec::new();
    #[cfg(feature = "par")]
    {
        let mut pools = vec![1usize];
        while pools.len() < 3 {
            let t = 2 + (rng.next_u32() % 23) as usize;
            if !pools.contains(&t) {
                pools.push(t);
            }
        }
        for t in pools {
            runs.push((format!("pool-{}", t), in_pool(t, || run(t))));
        }
    }
    #[cfg(not(feature = "par"))]
    {
        runs.push(("no-parallel-feature".into(), run(0)));
    }
    ctx.count("executions", runs.len() as u64);
    let mut note = serde_json::Map::new();
    note.insert("sonic/huge-setup|0|setup/universal-params".to_string(), json!(runs[0].1));
    ctx.merge_note_map("digests", note);
    let same = runs.iter().all(|(_, d)| *d == runs[0].1);
    let desc = json!({"max_degree": d, "executions": runs.iter().map(|(n, _)| n.clone()).collect::<Vec<_>>()});
    if same {
        ctx.held("same-digests-across-thread-counts", desc);
    } else {
        ctx.violated("same-digests-across-thread-counts", "setup/universal-params", desc, json!({"digests": runs}));
    }
}

pub fn run(ctx: &mut Ctx) {
    crate::schemes::set_custom_params(true);
    for_each_scheme!(ctx, S, {
        let n = ctx.n(24, 300) / <S as Scheme>::WEIGHT.max(1);
        ctx.run_cases(<S as Scheme>::NAME, n.max(3), |ctx, i, rng| case::<S>(ctx, i, rng, false));
    });
    ctx.run_cases("sonic/huge-setup", 1, |ctx, _i, rng| huge_setup(ctx, rng));
    // polynomials with more than a thousand coefficients (one curve per scheme is enough here)
    let nl = if ctx.is_thorough() { 12 } else { 4 };
    ctx.run_cases("marlin/large", nl, |ctx, i, rng| case::<crate::schemes::MarlinS<crate::schemes::E381>>(ctx, i, rng, true));
    ctx.run_cases("sonic/large", nl, |ctx, i, rng| case::<crate::schemes::SonicS<crate::schemes::E381>>(ctx, i, rng, true));
    ctx.run_cases("ipa/large", nl, |ctx, i, rng| case::<crate::schemes::IpaS>(ctx, i, rng, true));
    ctx.run_cases("pst13/large", nl / 2, |ctx, i, rng| case::<crate::schemes::Pst13S<crate::schemes::E381>>(ctx, i, rng, true));
    ctx.run_cases("hyrax/large", nl, |ctx, i, rng| case::<crate::schemes::HyraxS>(ctx, i, rng, true));
    ctx.run_cases("ligero-uni/large", nl, |ctx, i, rng| case::<crate::schemes::UniLigeroS>(ctx, i, rng, true));
    ctx.run_cases("ligero-ml/large", nl, |ctx, i, rng| case::<crate::schemes::MlLigeroS>(ctx, i, rng, true));
    ctx.run_cases("brakedown/large", nl, |ctx, i, rng| case::<crate::schemes::BrakedownS>(ctx, i, rng, true));
}
