//! C18 — results do not depend on thread count or on the `parallel` feature.
//! The same seeded workload is executed under rayon pools of several sizes (in this process) and,
//! by the driver, under the build without the `parallel` feature; SHA-256 digests of every
//! deterministic serialized output are compared.
use crate::for_each_scheme;
use crate::rt::Ctx;
use crate::scen::*;
use crate::schemes::{range, Cfg, Kind, Scheme, Shape};
use ark_poly::Polynomial;
use rand_chacha::ChaCha20Rng;
use rand_core::{RngCore, SeedableRng};
use serde_json::json;
use std::collections::BTreeMap;

fn dig<T: ark_serialize::CanonicalSerialize>(x: &T) -> String {
    crate::ju::dig(x)
}

/// One complete deterministic execution; every random choice derives from `seed`.
/// A configuration whose polynomials have well over a thousand coefficients: size thresholds in parallel
/// code paths (blocked conversions, chunked sums) are far above what the small scenarios reach.
static HUGE: std::sync::atomic::AtomicBool = std::sync::atomic::AtomicBool::new(false);
fn huge() -> bool {
    HUGE.load(std::sync::atomic::Ordering::Relaxed)
}

/// `<scheme>/huge`: 2^13 .. 2^14 coefficients (14 variables; PST13: one variable of degree 256..700 or two
/// of degree 24..40) - vector lengths of 4096 and more inside the provers, tables of several hundred powers
/// per variable in the PST13 parameters.
fn huge_cfg<S: Scheme>(rng: &mut ChaCha20Rng) -> Cfg {
    match S::KIND {
        Kind::Univariate => {
            let d = match rng.next_u32() % 3 {
                0 => [8191usize, 8192, 8193][(rng.next_u32() % 3) as usize],
                1 => 8191,
                _ => range(rng, 8192, 16384),
            };
            let enforced = if S::BOUNDS && rng.next_u32() % 2 == 0 { Some(vec![d]) } else { None };
            Cfg { max_degree: d, num_vars: None, supported_degree: d, supported_hiding: 1, enforced }
        }
        Kind::Multivariate => {
            let (nv, d) = if rng.next_u32() % 3 != 0 { (1, range(rng, 256, 700)) } else { (2, range(rng, 24, 40)) };
            Cfg { max_degree: d, num_vars: Some(nv), supported_degree: d, supported_hiding: d.min(300), enforced: None }
        }
        Kind::Multilinear => Cfg { max_degree: 1, num_vars: Some(14), supported_degree: 1, supported_hiding: 1, enforced: None },
    }
}

fn large_cfg<S: Scheme>(rng: &mut ChaCha20Rng, thorough: bool) -> Cfg {
    if huge() {
        return huge_cfg::<S>(rng);
    }
    match S::KIND {
        Kind::Univariate => {
            let d = match rng.next_u32() % 4 {
                0 => [1023usize, 1024, 1025, 2047, 2048][(rng.next_u32() % 5) as usize],
                _ => range(rng, 1023, if thorough { 4200 } else { 2100 }),
            };
            let enforced = if S::BOUNDS && rng.next_u32() % 2 == 0 { Some(vec![d]) } else { None };
            Cfg { max_degree: d, num_vars: None, supported_degree: d, supported_hiding: 1, enforced }
        }
        Kind::Multivariate => Cfg { max_degree: 11, num_vars: Some(4), supported_degree: 11, supported_hiding: 1, enforced: None },
        Kind::Multilinear => Cfg { max_degree: 1, num_vars: Some(if rng.next_u32() % 2 == 0 { 10 } else { 12 }), supported_degree: 1, supported_hiding: 1, enforced: None },
    }
}

fn large_tx<S: Scheme>(rng: &mut ChaCha20Rng, thorough: bool) -> Result<Tx<S>, TxErr> {
    let cfg = large_cfg::<S>(rng, thorough);
    let w = make_world::<S>(&cfg, rng).map_err(|(st, o)| TxErr::Refused(st, o, cfg.json()))?;
    let top = S::max_poly_degree(&cfg);
    let mut specs = Vec::new();
    for (i, label) in ["big", "other"].iter().enumerate() {
        // IPA rounds the supported degree up to 2^k - 1 (`top`): its only valid bound for a polynomial of that degree is `top`
        let bound = if S::BOUNDS && S::NAME == "ipa" { if rng.next_u32() % 2 == 0 { Some(top) } else { None } } else { cfg.enforced.as_ref().and_then(|e| if rng.next_u32() % 2 == 0 { Some(e[0]) } else { None }) };
        let hiding = if S::HIDING && rng.next_u32() % 2 == 0 { Some(1) } else { None };
        let deg = if i == 0 { top } else { range(rng, top / 2, top) };
        specs.push(Spec { label: label.to_string(), shape: if i == 0 { Shape::Full } else { Shape::Random }, deg, bound, hiding });
    }
    let polys = make_polys::<S>(&cfg, &specs, rng);
    let commit_seed = rng.next_u64();
    let c = commit::<S>(&w.ck, &polys, commit_seed).map_err(|o| TxErr::Refused("commit".into(), o, cfg.json()))?;
    Ok(Tx { w, specs, polys, c, pre: vec![7u8; 5], commit_seed })
}

fn workload<S: Scheme>(seed: [u8; 32], thorough: bool, large: bool) -> BTreeMap<String, String> {
    let mut out = BTreeMap::new();
    let mut rng = ChaCha20Rng::from_seed(seed);
    let tx = match if large { large_tx::<S>(&mut rng, thorough) } else { gen_tx::<S>(&mut rng, thorough, 4) } {
        Ok(t) => t,
        Err(TxErr::Refused(stage, o, _)) => {
            out.insert("pipeline".into(), format!("refused at {}: {}", stage, o.tag()));
            return out;
        }
    };
    if large {
        out.insert("size/coefficients-of-largest-polynomial".into(), format!("{}", tx.polys.iter().map(|p| p.degree() + 1).max().unwrap_or(0)));
    }
    out.insert("setup/universal-params".into(), dig(&tx.w.pp));
    out.insert("trim/committer-key".into(), dig(&tx.w.ck));
    out.insert("trim/verifier-key".into(), dig(&tx.w.vk));
    for (i, c) in tx.c.comms.iter().enumerate() {
        let kind = if tx.specs[i].hiding.is_some() { "seeded-hiding" } else { "non-hiding" };
        out.insert(format!("commit/{}-commitment[{}]", kind, i), dig(c.commitment()));
        out.insert(format!("commit/state[{}]", i), dig(&tx.c.states[i]));
    }
    let q = gen_queries::<S>(&tx.w.cfg, &tx.polys, range(&mut rng, 1, 3), &mut rng);
    let ident: Vec<usize> = (0..tx.polys.len()).collect();
    match batch_open::<S>(&tx, &ident, &q.qs, &mut tx.sponge(), rng.next_u64()) {
        Err(o) => {
            out.insert("batch_open/proof".into(), format!("refused: {}", o.tag()));
        }
        Ok(p) => {
            out.insert("batch_open/proof".into(), dig(&p));
            let o = batch_check::<S>(&tx.w.vk, &tx.c.comms, &q.qs, &q.evals, &p, &mut tx.sponge(), rng.next_u64());
            out.insert("batch_check/decision".into(), o.tag().to_string());
            let mut bad = q.evals.clone();
            if let Some(v) = bad.values_mut().next() {
                *v += FOf::<S>::from(1u64);
            }
            let o = batch_check::<S>(&tx.w.vk, &tx.c.comms, &q.qs, &bad, &p, &mut tx.sponge(), rng.next_u64());
            out.insert("batch_check/decision-on-false-claim".into(), o.tag().to_string());
        }
    }
    let g = &q.groups[0];
    let idx: Vec<usize> = g.2.iter().map(|l| tx.idx_of(l)).collect();
    if let Ok(p) = open::<S>(&tx, &idx, &g.1, &mut tx.sponge(), rng.next_u64()) {
        let bp: BatchProofOf<S> = vec![p.clone()].into();
        out.insert("open/proof".into(), dig(&bp));
        let comms: Vec<&LComm<S>> = idx.iter().map(|&i| &tx.c.comms[i]).collect();
        let vals: Vec<FOf<S>> = idx.iter().map(|&i| tx.polys[i].evaluate(&g.1)).collect();
        let o = check::<S>(&tx.w.vk, &comms, &g.1, &vals, &p, &mut tx.sponge(), 1);
        out.insert("check/decision".into(), o.tag().to_string());
    }
    out
}

#[cfg(feature = "par")]
fn in_pool<T: Send>(threads: usize, f: impl FnOnce() -> T + Send) -> T {
    rayon::ThreadPoolBuilder::new().num_threads(threads).build().expect("pool").install(f)
}

fn case<S: Scheme>(ctx: &mut Ctx, idx: u64, rng: &mut ChaCha20Rng, large: bool) {
    let thorough = ctx.is_thorough();
    case_with(ctx, idx, rng, S::NAME, large, move |seed| workload::<S>(seed, thorough, large));
}

/// Schemes used through their own API (no `PolynomialCommitment` impl): multilinear PST and streaming KZG.
fn mlpst_workload(seed: [u8; 32], large: bool) -> BTreeMap<String, String> {
    use ark_ff::UniformRand;
    use ark_poly::DenseMultilinearExtension;
    use ark_poly_commit::multilinear_pc::MultilinearPC;
    type E = ark_bls12_381::Bls12_381;
    type Fr = ark_bls12_381::Fr;
    let mut out = BTreeMap::new();
    let mut rng = ChaCha20Rng::from_seed(seed);
    let setup_nv = if large { range(&mut rng, 10, 12) } else { range(&mut rng, 1, 8) };
    let nv = if rng.next_u32() % 2 == 0 { setup_nv } else { range(&mut rng, 1, setup_nv) };
    out.insert("size/variables".into(), format!("{}/{}", nv, setup_nv));
    let pp = MultilinearPC::<E>::setup(setup_nv, &mut rng);
    out.insert("setup/universal-params".into(), dig(&pp));
    let (ck, vk) = MultilinearPC::<E>::trim(&pp, nv);
    out.insert("trim/committer-key".into(), dig(&ck));
    out.insert("trim/verifier-key".into(), dig(&vk));
    let poly = DenseMultilinearExtension::<Fr>::from_evaluations_vec(nv, (0..1usize << nv).map(|_| if rng.next_u32() % 5 == 0 { Fr::from(0u64) } else { Fr::rand(&mut rng) }).collect());
    let comm = MultilinearPC::<E>::commit(&ck, &poly);
    out.insert("commit/non-hiding-commitment[0]".into(), dig(&comm));
    let z: Vec<Fr> = (0..nv).map(|_| Fr::rand(&mut rng)).collect();
    let v = poly.evaluate(&z);
    let proof = MultilinearPC::<E>::open(&ck, &poly, &z);
    out.insert("open/proof".into(), dig(&proof));
    out.insert("check/decision".into(), format!("{}", MultilinearPC::<E>::check(&vk, &comm, &z, v, &proof)));
    out.insert("check/decision-on-false-claim".into(), format!("{}", MultilinearPC::<E>::check(&vk, &comm, &z, v + Fr::from(1u64), &proof)));
    out
}

fn streaming_workload(seed: [u8; 32], large: bool) -> BTreeMap<String, String> {
    use ark_ff::UniformRand;
    use ark_poly_commit::streaming_kzg::{CommitterKey, CommitterKeyStream, VerifierKey};
    use ark_std::iterable::Reverse;
    type E = ark_bls12_381::Bls12_381;
    type Fr = ark_bls12_381::Fr;
    let mut out = BTreeMap::new();
    let mut rng = ChaCha20Rng::from_seed(seed);
    let d = if large { range(&mut rng, 1023, 2100) } else { range(&mut rng, 1, 200) };
    let max_pts = range(&mut rng, 1, 6);
    let ck = CommitterKey::<E>::new(d, max_pts, &mut rng);
    let (g1, g2) = ck.verif_powers();
    out.insert("setup/g1-powers".into(), dig(&g1.to_vec()));
    out.insert("setup/g2-powers".into(), dig(&g2.to_vec()));
    let vk = VerifierKey::from(&ck);
    let npolys = range(&mut rng, 1, 3);
    let polys: Vec<Vec<Fr>> = (0..npolys).map(|i| (0..if i == 0 { d + 1 } else { range(&mut rng, 1, d + 1) }).map(|_| Fr::rand(&mut rng)).collect()).collect();
    let buf = [1usize, 3, 64, 1 << 20][(rng.next_u32() % 4) as usize];
    let sck = CommitterKeyStream::from(&ck);
    let comms = ck.batch_commit(&polys);
    for (i, c) in comms.iter().enumerate() {
        out.insert(format!("commit/time[{}]", i), dig(&c.verif_point()));
        out.insert(format!("commit/space[{}]", i), dig(&sck.commit(&Reverse(polys[i].as_slice())).verif_point()));
    }
    let alpha = Fr::rand(&mut rng);
    let (ev, pf) = ck.open(&polys[0], &alpha);
    out.insert("open/time".into(), format!("{}{}", dig(&ev), dig(&pf.0)));
    let (ev2, pf2) = sck.open(&Reverse(polys[0].as_slice()), &alpha, buf);
    out.insert("open/space".into(), format!("{}{}", dig(&ev2), dig(&pf2.0)));
    out.insert("verify/decision".into(), format!("{}", vk.verify(&comms[0], &alpha, &ev, &pf).is_ok()));
    let npts = range(&mut rng, 1, ck.max_eval_points().max(1).min(max_pts));
    let pts: Vec<Fr> = (0..npts).map(|_| Fr::rand(&mut rng)).collect();
    let eta = Fr::rand(&mut rng);
    let refs: Vec<&Vec<Fr>> = polys.iter().collect();
    let bp = ck.batch_open_multi_points(&refs, &pts, &eta);
    out.insert("batch_open_multi_points/proof".into(), dig(&bp.0));
    if polys[0].len() > npts {
        let (rem, sp) = sck.open_multi_points(&Reverse(polys[0].as_slice()), &pts, buf);
        out.insert("open_multi_points/space".into(), format!("{}{}", dig(&rem), dig(&sp.0)));
    }
    let evals: Vec<Vec<Fr>> = polys.iter().map(|p| pts.iter().map(|x| p.iter().rev().fold(Fr::from(0u64), |a, c| a * x + c)).collect()).collect();
    out.insert("verify_multi_points/decision".into(), format!("{}", vk.verify_multi_points(&comms, &pts, &evals, &bp, &eta).is_ok()));
    out
}

fn case_with(ctx: &mut Ctx, idx: u64, rng: &mut ChaCha20Rng, name: &str, large: bool, work: impl Fn([u8; 32]) -> BTreeMap<String, String> + Sync) {
    let mut seed = [0u8; 32];
    rng.fill_bytes(&mut seed);
    let thorough = ctx.is_thorough();
    #[allow(unused_mut)]
    let mut runs: Vec<(String, BTreeMap<String, String>)> = Vec::new();
    #[cfg(feature = "par")]
    {
        // pool sizes: 1 (reference), 2, 3, 16 and further sizes drawn per case from 4..=24 - a block-splitting
        // slip shows only for particular (thread count, length) pairs, so the sizes must vary across cases
        let mut pools: Vec<usize> = if huge() { vec![1, 3, 16] } else { vec![1, 2, 3, 16] };
        let extra = if huge() { 1 } else if large { 3 } else if thorough { 6 } else { 3 };
        let mut prng = ChaCha20Rng::from_seed(seed);
        prng.set_stream(99);
        while pools.len() < 4 + extra {
            let t = 4 + (prng.next_u32() % 21) as usize;
            if !pools.contains(&t) {
                pools.push(t);
            }
        }
        for &t in &pools {
            runs.push((format!("pool-{}", t), in_pool(t, || work(seed))));
        }
        let reps = if huge() { 0 } else if large { 1 } else if thorough { 8 } else { 3 };
        for r in 0..reps {
            runs.push((format!("pool-16-repeat-{}", r), in_pool(16, || work(seed))));
        }
        if thorough && !large && idx % 4 == 0 {
            // oversubscribed pool while other threads keep the cores busy
            let stop = std::sync::Arc::new(std::sync::atomic::AtomicBool::new(false));
            let hogs: Vec<_> = (0..8)
                .map(|_| {
                    let s = stop.clone();
                    std::thread::spawn(move || {
                        let mut x = 1u64;
                        while !s.load(std::sync::atomic::Ordering::Relaxed) {
                            x = x.wrapping_mul(6364136223846793005).wrapping_add(1);
                        }
                        x
                    })
                })
                .collect();
            runs.push(("pool-64-oversubscribed".into(), in_pool(64, || work(seed))));
            stop.store(true, std::sync::atomic::Ordering::Relaxed);
            for h in hogs {
                let _ = h.join();
            }
        }
    }
    #[cfg(not(feature = "par"))]
    {
        runs.push(("no-parallel-feature".into(), work(seed)));
        runs.push(("no-parallel-feature-repeat".into(), work(seed)));
    }
    ctx.count("executions", runs.len() as u64);
    let base = runs[0].1.clone();
    ctx.count("outputs-compared", (base.len() * (runs.len() - 1)) as u64);
    // record reference digests for the cross-build comparison made by the driver
    let mut note = serde_json::Map::new();
    for (k, v) in &base {
        note.insert(format!("{}{}|{}|{}", name, if huge() { "/huge" } else if large { "/large" } else { "" }, idx, k), json!(v));
    }
    ctx.merge_note_map("digests", note);
    let mut mismatches: Vec<serde_json::Value> = Vec::new();
    for (name, r) in &runs[1..] {
        for (k, v) in &base {
            if r.get(k) != Some(v) {
                mismatches.push(json!({"execution": name, "output": k, "reference": v, "got": r.get(k)}));
            }
        }
        if r.len() != base.len() {
            mismatches.push(json!({"execution": name, "outputs": r.len(), "reference_outputs": base.len()}));
        }
    }
    let desc = json!({"executions": runs.iter().map(|(n, _)| n.clone()).collect::<Vec<_>>(), "outputs": base.keys().collect::<Vec<_>>(), "digests": base});
    if mismatches.is_empty() && base.contains_key("pipeline") {
        // nothing but the refusal was compared
        ctx.skipped("same-digests-across-thread-counts", "pipeline refused under every pool size");
    } else if mismatches.is_empty() {
        ctx.held("same-digests-across-thread-counts", desc);
    } else {
        let what = mismatches[0]["output"].as_str().unwrap_or("?").split('[').next().unwrap_or("?").to_string();
        ctx.violated("same-digests-across-thread-counts", &what, desc, json!({"mismatches": mismatches.into_iter().take(6).collect::<Vec<_>>()}));
    }
}

/// Universal parameters with more than 2^14 powers (Sonic publishes a G2 power per degree): chunked table
/// construction only starts at such sizes. Only setup is repeated here, under one thread and two drawn pool sizes.
fn huge_setup(ctx: &mut Ctx, rng: &mut ChaCha20Rng) {
    use ark_poly_commit::PolynomialCommitment;
    type S = crate::schemes::SonicS<crate::schemes::E381>;
    let d = (1usize << 14) + 1 + (rng.next_u32() % 3000) as usize;
    let mut seed = [0u8; 32];
    rng.fill_bytes(&mut seed);
    let run = |_t: usize| -> String {
        let mut r = ChaCha20Rng::from_seed(seed);
        match crate::rt::attempt(|| PcOf::<S>::setup(d, None, &mut r)) {
            Ok(pp) => dig(&pp),
            Err(o) => format!("refused: {}", o.tag()),
        }
    };
    #[allow(unused_mut)]
    let mut runs: Vec<(String, String)> = Vec::new();
    #[cfg(feature = "par")]
    {
        let mut pools = vec![1usize];
        while pools.len() < 3 {
            let t = 2 + (rng.next_u32() % 23) as usize;
            if !pools.contains(&t) {
                pools.push(t);
            }
        }
        for t in pools {
            runs.push((format!("pool-{}", t), in_pool(t, || run(t))));
        }
    }
    #[cfg(not(feature = "par"))]
    {
        runs.push(("no-parallel-feature".into(), run(0)));
    }
    ctx.count("executions", runs.len() as u64);
    let mut note = serde_json::Map::new();
    note.insert("sonic/huge-setup|0|setup/universal-params".to_string(), json!(runs[0].1));
    ctx.merge_note_map("digests", note);
    let same = runs.iter().all(|(_, d)| *d == runs[0].1);
    let desc = json!({"max_degree": d, "executions": runs.iter().map(|(n, _)| n.clone()).collect::<Vec<_>>()});
    if same {
        ctx.held("same-digests-across-thread-counts", desc);
    } else {
        ctx.violated("same-digests-across-thread-counts", "setup/universal-params", desc, json!({"digests": runs}));
    }
}

pub fn run(ctx: &mut Ctx) {
    crate::schemes::set_custom_params(true);
    for_each_scheme!(ctx, S, {
        let n = ctx.n(24, 300) / <S as Scheme>::WEIGHT.max(1);
        ctx.run_cases(<S as Scheme>::NAME, n.max(3), |ctx, i, rng| case::<S>(ctx, i, rng, false));
    });
    let nd = ctx.n(24, 300);
    ctx.run_cases("mlpst", nd, |ctx, i, rng| case_with(ctx, i, rng, "mlpst", false, |seed| mlpst_workload(seed, false)));
    ctx.run_cases("streaming", nd, |ctx, i, rng| case_with(ctx, i, rng, "streaming", false, |seed| streaming_workload(seed, false)));
    ctx.run_cases("sonic/huge-setup", 1, |ctx, _i, rng| huge_setup(ctx, rng));
    // polynomials with more than a thousand coefficients (one curve per scheme is enough here)
    let nl = if ctx.is_thorough() { 12 } else { 4 };
    ctx.run_cases("marlin/large", nl, |ctx, i, rng| case::<crate::schemes::MarlinS<crate::schemes::E381>>(ctx, i, rng, true));
    ctx.run_cases("sonic/large", nl, |ctx, i, rng| case::<crate::schemes::SonicS<crate::schemes::E381>>(ctx, i, rng, true));
    ctx.run_cases("ipa/large", nl, |ctx, i, rng| case::<crate::schemes::IpaS>(ctx, i, rng, true));
    ctx.run_cases("pst13/large", nl / 2, |ctx, i, rng| case::<crate::schemes::Pst13S<crate::schemes::E381>>(ctx, i, rng, true));
    ctx.run_cases("hyrax/large", nl, |ctx, i, rng| case::<crate::schemes::HyraxS>(ctx, i, rng, true));
    ctx.run_cases("mlpst/large", nl, |ctx, i, rng| case_with(ctx, i, rng, "mlpst", true, |seed| mlpst_workload(seed, true)));
    ctx.run_cases("streaming/large", nl, |ctx, i, rng| case_with(ctx, i, rng, "streaming", true, |seed| streaming_workload(seed, true)));
    ctx.run_cases("ligero-uni/large", nl, |ctx, i, rng| case::<crate::schemes::UniLigeroS>(ctx, i, rng, true));
    ctx.run_cases("ligero-ml/large", nl, |ctx, i, rng| case::<crate::schemes::MlLigeroS>(ctx, i, rng, true));
    ctx.run_cases("brakedown/large", nl, |ctx, i, rng| case::<crate::schemes::BrakedownS>(ctx, i, rng, true));
    // 2^13..2^14 coefficients / 14 variables / PST13 tables of several hundred powers: one or two cases per scheme,
    // pools of 1, 3, 16 and one more drawn size
    HUGE.store(true, std::sync::atomic::Ordering::Relaxed);
    let nh = if ctx.is_thorough() { 4 } else { 1 };
    ctx.shard_offset = 1;
    ctx.run_cases("marlin/huge", nh, |ctx, i, rng| case::<crate::schemes::MarlinS<crate::schemes::E381>>(ctx, i, rng, true));
    ctx.shard_offset = 3;
    ctx.run_cases("sonic/huge", nh, |ctx, i, rng| case::<crate::schemes::SonicS<crate::schemes::E381>>(ctx, i, rng, true));
    ctx.shard_offset = 5;
    ctx.run_cases("ipa/huge", nh + 1, |ctx, i, rng| case::<crate::schemes::IpaS>(ctx, i, rng, true));
    ctx.shard_offset = 8;
    ctx.run_cases("pst13/huge", 2 * nh + 2, |ctx, i, rng| case::<crate::schemes::Pst13S<crate::schemes::E381>>(ctx, i, rng, true));
    ctx.shard_offset = 12;
    ctx.run_cases("hyrax/huge", nh, |ctx, i, rng| case::<crate::schemes::HyraxS>(ctx, i, rng, true));
    ctx.shard_offset = 13;
    ctx.run_cases("ligero-uni/huge", nh, |ctx, i, rng| case::<crate::schemes::UniLigeroS>(ctx, i, rng, true));
    ctx.shard_offset = 14;
    ctx.run_cases("ligero-ml/huge", nh, |ctx, i, rng| case::<crate::schemes::MlLigeroS>(ctx, i, rng, true));
    ctx.shard_offset = 15;
    ctx.run_cases("brakedown/huge", nh, |ctx, i, rng| case::<crate::schemes::BrakedownS>(ctx, i, rng, true));
    ctx.shard_offset = 0;
    HUGE.store(false, std::sync::atomic::Ordering::Relaxed);
}
