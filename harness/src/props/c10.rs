//! C10 — verifiers decide exactly the scheme's published verification relation: library
//! decision == decision of an independent reference verifier on honest transcripts, on every
//! single-component substitution and on compensated double faults. Both sides draw their
//! challenges from clones of one recording sponge.
use crate::ipa_ref;
use crate::mirror::{convert, MLinCommitment, MLinProof};
use crate::oracle::{inner, merkle_root_from_path};
use crate::probe::Sp;
use crate::rt::{attempt, guard, Ctx, Out};
use crate::scen::*;
use crate::schemes::*;
use ark_crypto_primitives::sponge::CryptographicSponge;
use ark_ec::{pairing::Pairing, AffineRepr, CurveGroup};
use ark_ff::{Field, One, PrimeField, UniformRand, Zero};
use ark_poly::{univariate::DensePolynomial, Polynomial};
use ark_poly_commit::linear_codes::{verif_calculate_t, LinCodeParametersInfo, LinearEncode};
use ark_poly_commit::{
    hyrax, ipa_pc, kzg10, marlin_pc, marlin_pst13_pc, sonic_pc, LabeledCommitment, LabeledPolynomial, PolynomialCommitment, CHALLENGE_SIZE,
};
use ark_serialize::CanonicalSerialize;
use ark_std::ops::Mul;
use rand_chacha::ChaCha20Rng;
use rand_core::RngCore;
use serde_json::{json, Value};

type E = E381;
type Fr = ark_bls12_381::Fr;
type G1 = <E as Pairing>::G1Affine;
type G2 = <E as Pairing>::G2Affine;

fn rg1(rng: &mut impl RngCore) -> G1 {
    G1::generator().mul(Fr::rand(rng)).into_affine()
}
fn rg2(rng: &mut impl RngCore) -> G2 {
    G2::generator().mul(Fr::rand(rng)).into_affine()
}
fn rjj(rng: &mut impl RngCore) -> JubJub {
    JubJub::generator().mul(JFr::rand(rng)).into_affine()
}
fn ch<F: PrimeField>(sp: &mut Sp<F>) -> F {
    sp.squeeze_field_elements_with_sizes::<F>(&[CHALLENGE_SIZE])[0]
}

fn compare(ctx: &mut Ctx, scheme_entry: &str, fault: &str, desc: &Value, lib: &Out, reference: Result<bool, String>) {
    let refd = matches!(reference, Ok(true));
    ctx.count(&format!("decision:{}:{}", if lib.is_accept() { "accept" } else { "not-accept" }, if refd { "relation-holds" } else { "relation-fails" }), 1);
    let mut d = desc.clone();
    d["fault"] = json!(fault);
    let class = if fault == "honest" { "honest-satisfies-relation".to_string() } else if fault.starts_with("compensated") { "compensated-fault-agrees".to_string() } else { format!("single-fault-agrees[{}]", fault.split(':').next().unwrap()) };
    ctx.check(lib.is_accept() == refd, &class, scheme_entry, d, || json!({"library": lib.json(), "reference": format!("{:?}", reference)}));
    if fault == "honest" && !refd {
        // counted separately so that the floor "honest proofs satisfy the relation" is visible
        ctx.count("honest-relation-failures", 1);
    }
}

// =================================================================================== Marlin

#[derive(Clone)]
struct MarlinT {
    vk: marlin_pc::VerifierKey<E>,
    comms: Vec<(marlin_pc::Commitment<E>, Option<usize>)>,
    z: Fr,
    vals: Vec<Fr>,
    proof: kzg10::Proof<E>,
}

fn marlin_ref(t: &MarlinT, sp: &mut Sp<Fr>) -> Result<bool, String> {
    let mut c = <E as Pairing>::G1::zero();
    let mut v = Fr::zero();
    for ((cm, bound), val) in t.comms.iter().zip(&t.vals) {
        if bound.is_some() != cm.shifted_comm.is_some() {
            return Err("degree bound label and shifted commitment disagree".into());
        }
        let x = ch(sp);
        c += cm.comm.0.mul(x);
        v += *val * x;
        if let Some(d) = bound {
            let x1 = ch(sp);
            let sh = t.vk.degree_bounds_and_shift_powers.as_ref().and_then(|l| l.iter().find(|(b, _)| b == d)).map(|(_, g)| *g).ok_or("bound not in verifier key")?;
            c += (cm.shifted_comm.unwrap().0.into_group() - sh.mul(*val)).mul(x1);
        }
    }
    let k = &t.vk.vk;
    let mut lhs = c - k.g.mul(v);
    if let Some(rv) = t.proof.random_v {
        lhs -= k.gamma_g.mul(rv);
    }
    Ok(E::pairing(lhs, k.h) == E::pairing(t.proof.w, k.beta_h.into_group() - k.h.mul(t.z)))
}

fn marlin_lib(t: &MarlinT, sp: &mut Sp<Fr>) -> Out {
    let lc: Vec<LabeledCommitment<marlin_pc::Commitment<E>>> = t.comms.iter().enumerate().map(|(i, (c, b))| LabeledCommitment::new(format!("p{}", i), *c, *b)).collect();
    crate::rt::decide(|| <PcOf<MarlinS<E>>>::check(&t.vk, lc.iter(), &t.z, t.vals.iter().copied(), &t.proof, sp, None))
}

fn marlin(ctx: &mut Ctx, rng: &mut ChaCha20Rng) {
    type S = MarlinS<E>;
    let tx = match gen_tx::<S>(rng, false, 3) {
        Ok(t) => t,
        Err(_) => return ctx.skipped("baseline", "honest pipeline refused (reported under C01/C17)"),
    };
    let idx: Vec<usize> = (0..tx.polys.len()).collect();
    let z = Fr::rand(rng);
    let proof = match open::<S>(&tx, &idx, &z, &mut tx.sponge(), 1) {
        Ok(p) => p,
        Err(_) => return ctx.skipped("baseline", "honest open refused"),
    };
    let t0 = MarlinT {
        vk: tx.w.vk.clone(),
        comms: tx.c.comms.iter().map(|c| (*c.commitment(), c.degree_bound())).collect(),
        z,
        vals: idx.iter().map(|&i| tx.polys[i].evaluate(&z)).collect(),
        proof,
    };
    let desc = json!({"tx": tx.json()});
    let n = t0.comms.len();
    let g1 = tx.w.ck.powers.get(1).copied();
    let mut faults: Vec<(String, MarlinT)> = vec![("honest".into(), t0.clone())];
    for i in 0..n {
        let mut t = t0.clone();
        t.comms[i].0.comm = kzg10::Commitment(rg1(rng));
        faults.push((format!("commitment:{}", i), t));
        if t0.comms[i].1.is_some() {
            let mut t = t0.clone();
            t.comms[i].0.shifted_comm = Some(kzg10::Commitment(rg1(rng)));
            faults.push((format!("shifted-commitment:{}", i), t));
            let others: Vec<usize> = t0.vk.degree_bounds_and_shift_powers.as_ref().map(|l| l.iter().map(|(b, _)| *b).filter(|b| Some(*b) != t0.comms[i].1).collect()).unwrap_or_default();
            if let Some(&b2) = others.first() {
                let mut t = t0.clone();
                t.comms[i].1 = Some(b2);
                faults.push((format!("degree-bound:{}", i), t));
            }
            let enforced: Vec<usize> = t0.vk.degree_bounds_and_shift_powers.as_ref().map(|l| l.iter().map(|(b, _)| *b).collect()).unwrap_or_default();
            if let Some(dm) = (1..=t0.vk.max_degree).find(|b| !enforced.contains(b)) {
                let mut t = t0.clone();
                t.comms[i].1 = Some(dm);
                faults.push((format!("degree-bound-unenforced:{}", i), t));
            }
            let mut t = t0.clone();
            if let Some(l) = t.vk.degree_bounds_and_shift_powers.as_mut() {
                let d = t0.comms[i].1.unwrap();
                if let Some(e) = l.iter_mut().find(|(b, _)| *b == d) {
                    e.1 = rg1(rng);
                }
            }
            faults.push((format!("vk-shift-power:{}", i), t));
        }
        let mut t = t0.clone();
        t.vals[i] += Fr::rand(rng) + Fr::one();
        faults.push((format!("value:{}", i), t));
    }
    if n >= 2 {
        // two values changed by (d, -d): a false claim unless the two opening challenges coincide
        let d = Fr::rand(rng) + Fr::one();
        let mut t = t0.clone();
        t.vals[0] += d;
        t.vals[1] -= d;
        faults.push(("value-pair-cancelling".into(), t));
    }
    let mut t = t0.clone();
    t.z += Fr::one();
    faults.push(("point".into(), t));
    let mut t = t0.clone();
    t.proof.w = rg1(rng);
    faults.push(("proof-w".into(), t));
    let mut t = t0.clone();
    t.proof.random_v = Some(Fr::rand(rng));
    faults.push(("proof-random_v".into(), t));
    for (name, f) in [("vk-g", 0), ("vk-gamma_g", 1), ("vk-h", 2), ("vk-beta_h", 3)] {
        let mut t = t0.clone();
        match f {
            0 => t.vk.vk.g = rg1(rng),
            1 => t.vk.vk.gamma_g = rg1(rng),
            2 => {
                t.vk.vk.h = rg2(rng);
                t.vk.vk.prepared_h = t.vk.vk.h.into();
            }
            _ => {
                t.vk.vk.beta_h = rg2(rng);
                t.vk.vk.prepared_beta_h = t.vk.vk.beta_h.into();
            }
        }
        // gamma_g only matters for hiding proofs; the comparison is an equality of decisions either way
        faults.push((name.into(), t));
    }
    // compensated double faults: the relation stays true
    {
        // shift an unbounded commitment by delta*G and its value by delta
        if let Some(i) = (0..n).find(|&i| t0.comms[i].1.is_none()) {
            let d = Fr::rand(rng);
            let mut t = t0.clone();
            t.comms[i].0.comm = kzg10::Commitment((t.comms[i].0.comm.0.into_group() + t.vk.vk.g.mul(d)).into_affine());
            t.vals[i] += d;
            faults.push(("compensated:commitment+value".into(), t));
            if let Some(g1) = g1 {
                // W + omega*G together with C_i + (omega/xi_i)*(beta*G - z*G): needs the challenge of position i
                let mut sp = tx.sponge();
                let mut xi = Fr::zero();
                for (j, (_, b)) in t0.comms.iter().enumerate() {
                    let x = ch(&mut sp);
                    if j == i {
                        xi = x;
                    }
                    if b.is_some() {
                        let _ = ch(&mut sp);
                    }
                }
                if !xi.is_zero() {
                    let om = Fr::rand(rng);
                    let mut t = t0.clone();
                    t.proof.w = (t.proof.w.into_group() + t.vk.vk.g.mul(om)).into_affine();
                    let adj = (g1.into_group() - t.vk.vk.g.mul(t.z)).mul(om * xi.inverse().unwrap());
                    t.comms[i].0.comm = kzg10::Commitment((t.comms[i].0.comm.0.into_group() + adj).into_affine());
                    faults.push(("compensated:witness+commitment".into(), t));
                }
            }
        }
    }
    for (name, t) in faults {
        let lib = marlin_lib(&t, &mut tx.sponge());
        let r = guard(|| marlin_ref(&t, &mut tx.sponge())).unwrap_or_else(|p| Err(format!("reference panicked: {}", p)));
        compare(ctx, "check", &name, &desc, &lib, r);
    }
}

// =================================================================================== Sonic

#[derive(Clone)]
struct SonicT {
    vk: sonic_pc::VerifierKey<E>,
    comms: Vec<(kzg10::Commitment<E>, Option<usize>)>,
    z: Fr,
    vals: Vec<Fr>,
    proof: kzg10::Proof<E>,
}

fn sonic_ref(t: &SonicT, sp: &mut Sp<Fr>) -> Result<bool, String> {
    let mut x = ch(sp);
    let mut v = Fr::zero();
    let mut by_bound: std::collections::BTreeMap<Option<usize>, <E as Pairing>::G1> = Default::default();
    for ((c, b), val) in t.comms.iter().zip(&t.vals) {
        v += *val * x;
        *by_bound.entry(*b).or_insert_with(<E as Pairing>::G1::zero) += c.0.mul(x);
        x = ch(sp);
    }
    // prod_b e(C_b, H_b) == e(v*G - z*W + rv*gammaG, H) * e(W, beta H), H_b = beta^-(max-b) H for bounded groups
    let mut lhs = <E as Pairing>::TargetField::one();
    for (b, c) in by_bound {
        let hb = match b {
            None => t.vk.h,
            Some(d) => t.vk.degree_bounds_and_neg_powers_of_h.as_ref().and_then(|l| l.iter().find(|(x, _)| *x == d)).map(|(_, h)| *h).ok_or("bound not in verifier key")?,
        };
        lhs *= E::pairing(c, hb).0;
    }
    let mut adj = t.vk.g.mul(v) - t.proof.w.mul(t.z);
    if let Some(rv) = t.proof.random_v {
        adj += t.vk.gamma_g.mul(rv);
    }
    let rhs = E::pairing(adj, t.vk.h).0 * E::pairing(t.proof.w, t.vk.beta_h).0;
    Ok(lhs == rhs)
}

fn sonic_lib(t: &SonicT, sp: &mut Sp<Fr>) -> Out {
    let lc: Vec<LabeledCommitment<kzg10::Commitment<E>>> = t.comms.iter().enumerate().map(|(i, (c, b))| LabeledCommitment::new(format!("p{}", i), *c, *b)).collect();
    crate::rt::decide(|| <PcOf<SonicS<E>>>::check(&t.vk, lc.iter(), &t.z, t.vals.iter().copied(), &t.proof, sp, None))
}

fn sonic(ctx: &mut Ctx, rng: &mut ChaCha20Rng) {
    type S = SonicS<E>;
    let tx = match gen_tx::<S>(rng, false, 3) {
        Ok(t) => t,
        Err(_) => return ctx.skipped("baseline", "honest pipeline refused (reported under C01/C17)"),
    };
    let idx: Vec<usize> = (0..tx.polys.len()).collect();
    let z = Fr::rand(rng);
    let proof = match open::<S>(&tx, &idx, &z, &mut tx.sponge(), 1) {
        Ok(p) => p,
        Err(_) => return ctx.skipped("baseline", "honest open refused"),
    };
    let t0 = SonicT { vk: tx.w.vk.clone(), comms: tx.c.comms.iter().map(|c| (*c.commitment(), c.degree_bound())).collect(), z, vals: idx.iter().map(|&i| tx.polys[i].evaluate(&z)).collect(), proof };
    let desc = json!({"tx": tx.json()});
    let n = t0.comms.len();
    let mut faults: Vec<(String, SonicT)> = vec![("honest".into(), t0.clone())];
    for i in 0..n {
        let mut t = t0.clone();
        t.comms[i].0 = kzg10::Commitment(rg1(rng));
        faults.push((format!("commitment:{}", i), t));
        let mut t = t0.clone();
        t.vals[i] += Fr::rand(rng) + Fr::one();
        faults.push((format!("value:{}", i), t));
        if let Some(d) = t0.comms[i].1 {
            let others: Vec<usize> = t0.vk.degree_bounds_and_neg_powers_of_h.as_ref().map(|l| l.iter().map(|(b, _)| *b).filter(|b| *b != d).collect()).unwrap_or_default();
            if let Some(&b2) = others.first() {
                let mut t = t0.clone();
                t.comms[i].1 = Some(b2);
                faults.push((format!("degree-bound:{}", i), t));
            }
            let mut t = t0.clone();
            t.comms[i].1 = None;
            faults.push((format!("degree-bound-removed:{}", i), t));
            // a bound the verifier key holds no element for
            let enforced: Vec<usize> = t0.vk.degree_bounds_and_neg_powers_of_h.as_ref().map(|l| l.iter().map(|(b, _)| *b).collect()).unwrap_or_default();
            if let Some(dm) = (1..=t0.vk.max_degree).find(|b| !enforced.contains(b) && *b != d) {
                let mut t = t0.clone();
                t.comms[i].1 = Some(dm);
                faults.push((format!("degree-bound-unenforced:{}", i), t));
            }
            let mut t = t0.clone();
            if let Some(l) = t.vk.degree_bounds_and_neg_powers_of_h.as_mut() {
                if let Some(e) = l.iter_mut().find(|(b, _)| *b == d) {
                    e.1 = rg2(rng);
                }
            }
            faults.push((format!("vk-neg-power:{}", i), t));
        }
    }
    if n >= 2 {
        let d = Fr::rand(rng) + Fr::one();
        let mut t = t0.clone();
        t.vals[0] += d;
        t.vals[1] -= d;
        faults.push(("value-pair-cancelling".into(), t));
    }
    let mut t = t0.clone();
    t.z += Fr::one();
    faults.push(("point".into(), t));
    let mut t = t0.clone();
    t.proof.w = rg1(rng);
    faults.push(("proof-w".into(), t));
    let mut t = t0.clone();
    t.proof.random_v = Some(Fr::rand(rng));
    faults.push(("proof-random_v".into(), t));
    for f in 0..4 {
        let mut t = t0.clone();
        let name = match f {
            0 => {
                t.vk.g = rg1(rng);
                "vk-g"
            }
            1 => {
                t.vk.gamma_g = rg1(rng);
                "vk-gamma_g"
            }
            2 => {
                t.vk.h = rg2(rng);
                t.vk.prepared_h = t.vk.h.into();
                "vk-h"
            }
            _ => {
                t.vk.beta_h = rg2(rng);
                t.vk.prepared_beta_h = t.vk.beta_h.into();
                "vk-beta_h"
            }
        };
        faults.push((name.into(), t));
    }
    if let Some(i) = (0..n).find(|&i| t0.comms[i].1.is_none()) {
        let d = Fr::rand(rng);
        let mut t = t0.clone();
        t.comms[i].0 = kzg10::Commitment((t.comms[i].0 .0.into_group() + t.vk.g.mul(d)).into_affine());
        t.vals[i] += d;
        faults.push(("compensated:commitment+value".into(), t));
    }
    for (name, t) in faults {
        let lib = sonic_lib(&t, &mut tx.sponge());
        let r = guard(|| sonic_ref(&t, &mut tx.sponge())).unwrap_or_else(|p| Err(format!("reference panicked: {}", p)));
        compare(ctx, "check", &name, &desc, &lib, r);
    }
}

// =================================================================================== PST13

#[derive(Clone)]
struct PstT {
    vk: marlin_pst13_pc::VerifierKey<E>,
    comms: Vec<marlin_pc::Commitment<E>>,
    z: Vec<Fr>,
    vals: Vec<Fr>,
    proof: marlin_pst13_pc::Proof<E>,
}

fn pst_ref(t: &PstT, sp: &mut Sp<Fr>) -> Result<bool, String> {
    if t.proof.w.len() != t.vk.num_vars || t.z.len() != t.vk.num_vars || t.vk.beta_h.len() != t.vk.num_vars {
        return Err("witness / point length differs from the number of variables".into());
    }
    let mut c = <E as Pairing>::G1::zero();
    let mut v = Fr::zero();
    for (cm, val) in t.comms.iter().zip(&t.vals) {
        if cm.shifted_comm.is_some() {
            return Err("PST13 commitments carry no degree-bound part".into());
        }
        let x = ch(sp);
        c += cm.comm.0.mul(x);
        v += *val * x;
    }
    let mut lhs = c - t.vk.g.mul(v);
    if let Some(rv) = t.proof.random_v {
        lhs -= t.vk.gamma_g.mul(rv);
    }
    let mut rhs = <E as Pairing>::TargetField::one();
    for j in 0..t.vk.num_vars {
        rhs *= E::pairing(t.proof.w[j], t.vk.beta_h[j].into_group() - t.vk.h.mul(t.z[j])).0;
    }
    Ok(E::pairing(lhs, t.vk.h).0 == rhs)
}

fn pst_lib(t: &PstT, sp: &mut Sp<Fr>) -> Out {
    let lc: Vec<LabeledCommitment<marlin_pc::Commitment<E>>> = t.comms.iter().enumerate().map(|(i, c)| LabeledCommitment::new(format!("p{}", i), *c, None)).collect();
    crate::rt::decide(|| <PcOf<Pst13S<E>>>::check(&t.vk, lc.iter(), &t.z, t.vals.iter().copied(), &t.proof, sp, None))
}

fn pst13(ctx: &mut Ctx, rng: &mut ChaCha20Rng) {
    type S = Pst13S<E>;
    let tx = match gen_tx::<S>(rng, false, 2) {
        Ok(t) => t,
        Err(_) => return ctx.skipped("baseline", "honest pipeline refused (reported under C01/C17)"),
    };
    let idx: Vec<usize> = (0..tx.polys.len()).collect();
    let z = <S as Scheme>::gen_point(&tx.w.cfg, rng);
    let proof = match open::<S>(&tx, &idx, &z, &mut tx.sponge(), 1) {
        Ok(p) => p,
        Err(_) => return ctx.skipped("baseline", "honest open refused"),
    };
    let t0 = PstT { vk: tx.w.vk.clone(), comms: tx.c.comms.iter().map(|c| *c.commitment()).collect(), z: z.clone(), vals: idx.iter().map(|&i| tx.polys[i].evaluate(&z)).collect(), proof };
    let desc = json!({"tx": tx.json()});
    let nv = t0.vk.num_vars;
    let mut faults: Vec<(String, PstT)> = vec![("honest".into(), t0.clone())];
    for i in 0..t0.comms.len() {
        let mut t = t0.clone();
        t.comms[i].comm = kzg10::Commitment(rg1(rng));
        faults.push((format!("commitment:{}", i), t));
        let mut t = t0.clone();
        t.vals[i] += Fr::rand(rng) + Fr::one();
        faults.push((format!("value:{}", i), t));
    }
    if t0.comms.len() >= 2 {
        let d = Fr::rand(rng) + Fr::one();
        let mut t = t0.clone();
        t.vals[0] += d;
        t.vals[1] -= d;
        faults.push(("value-pair-cancelling".into(), t));
    }
    for j in 0..nv {
        let mut t = t0.clone();
        t.z[j] += Fr::one();
        faults.push((format!("point-coordinate:{}", j), t));
        let mut t = t0.clone();
        t.proof.w[j] = rg1(rng);
        faults.push((format!("proof-w:{}", j), t));
        let mut t = t0.clone();
        t.vk.beta_h[j] = rg2(rng);
        t.vk.prepared_beta_h[j] = t.vk.beta_h[j].into();
        faults.push((format!("vk-beta_h:{}", j), t));
    }
    let mut t = t0.clone();
    t.proof.random_v = Some(Fr::rand(rng));
    faults.push(("proof-random_v".into(), t));
    let mut t = t0.clone();
    t.vk.g = rg1(rng);
    faults.push(("vk-g".into(), t));
    let mut t = t0.clone();
    t.vk.h = rg2(rng);
    t.vk.prepared_h = t.vk.h.into();
    faults.push(("vk-h".into(), t));
    let d = Fr::rand(rng);
    let mut t = t0.clone();
    t.comms[0].comm = kzg10::Commitment((t.comms[0].comm.0.into_group() + t.vk.g.mul(d)).into_affine());
    t.vals[0] += d;
    faults.push(("compensated:commitment+value".into(), t));
    for (name, t) in faults {
        let lib = pst_lib(&t, &mut tx.sponge());
        let r = guard(|| pst_ref(&t, &mut tx.sponge())).unwrap_or_else(|p| Err(format!("reference panicked: {}", p)));
        compare(ctx, "check", &name, &desc, &lib, r);
    }
}

// =================================================================================== IPA

#[derive(Clone)]
struct IpaT {
    vk: ipa_pc::VerifierKey<JubJub>,
    comms: Vec<(ipa_pc::Commitment<JubJub>, Option<usize>)>,
    z: JFr,
    vals: Vec<JFr>,
    proof: ipa_pc::Proof<JubJub>,
}

fn ipa_refv(t: &IpaT, sp: &mut Sp<JFr>) -> Result<bool, String> {
    let d = t.vk.comm_key.len() - 1;
    let rounds = (d + 1).next_power_of_two().trailing_zeros() as usize;
    let mut c = <JubJub as AffineRepr>::Group::zero();
    let mut v = JFr::zero();
    let mut x = ch(sp);
    for ((cm, b), val) in t.comms.iter().zip(&t.vals) {
        if b.is_some() != cm.shifted_comm.is_some() {
            return Err("degree bound label and shifted commitment disagree".into());
        }
        v += x * val;
        c += cm.comm.mul(x);
        x = ch(sp);
        if let Some(b) = b {
            if *b > d {
                return Err("bound beyond the key".into());
            }
            v += x * val * t.z.pow([(d - b) as u64]);
            c += cm.shifted_comm.unwrap().mul(x);
        }
        x = ch(sp);
    }
    if t.proof.hiding_comm.is_some() != t.proof.rand.is_some() {
        return Err("hiding commitment and randomness must come together".into());
    }
    let hiding = t.proof.hiding_comm.map(|h| (h, t.proof.rand.unwrap()));
    ipa_ref::verify_relation(&t.vk.comm_key, &t.vk.h, &t.vk.s, c, v, t.z, &t.proof.l_vec, &t.proof.r_vec, &t.proof.final_comm_key, &t.proof.c, hiding, rounds)
}

fn ipa_lib(t: &IpaT, sp: &mut Sp<JFr>) -> Out {
    let lc: Vec<LabeledCommitment<ipa_pc::Commitment<JubJub>>> = t.comms.iter().enumerate().map(|(i, (c, b))| LabeledCommitment::new(format!("p{}", i), *c, *b)).collect();
    crate::rt::decide(|| <PcOf<IpaS>>::check(&t.vk, lc.iter(), &t.z, t.vals.iter().copied(), &t.proof, sp, None))
}

fn ipa(ctx: &mut Ctx, rng: &mut ChaCha20Rng) {
    type S = IpaS;
    let tx = match gen_tx::<S>(rng, false, 3) {
        Ok(t) => t,
        Err(_) => return ctx.skipped("baseline", "honest pipeline refused (reported under C01/C17)"),
    };
    let idx: Vec<usize> = (0..tx.polys.len()).collect();
    let z = JFr::rand(rng);
    let proof = match open::<S>(&tx, &idx, &z, &mut tx.sponge(), 1) {
        Ok(p) => p,
        Err(_) => return ctx.skipped("baseline", "honest open refused"),
    };
    let t0 = IpaT { vk: tx.w.vk.clone(), comms: tx.c.comms.iter().map(|c| (*c.commitment(), c.degree_bound())).collect(), z, vals: idx.iter().map(|&i| tx.polys[i].evaluate(&z)).collect(), proof };
    let desc = json!({"tx": tx.json()});
    let mut faults: Vec<(String, IpaT)> = vec![("honest".into(), t0.clone())];
    for i in 0..t0.comms.len() {
        let mut t = t0.clone();
        t.comms[i].0.comm = rjj(rng);
        faults.push((format!("commitment:{}", i), t));
        let mut t = t0.clone();
        t.vals[i] += JFr::rand(rng) + JFr::one();
        faults.push((format!("value:{}", i), t));
        if let Some(b) = t0.comms[i].1 {
            let mut t = t0.clone();
            t.comms[i].0.shifted_comm = Some(rjj(rng));
            faults.push((format!("shifted-commitment:{}", i), t));
            let d = t0.vk.comm_key.len() - 1;
            let b2 = if b < d { b + 1 } else { b.saturating_sub(1) };
            if b2 != b {
                let mut t = t0.clone();
                t.comms[i].1 = Some(b2);
                faults.push((format!("degree-bound:{}", i), t));
            }
        }
    }
    if t0.comms.len() >= 2 {
        let d = JFr::rand(rng) + JFr::one();
        let mut t = t0.clone();
        t.vals[0] += d;
        t.vals[1] -= d;
        faults.push(("value-pair-cancelling".into(), t));
    }
    let mut t = t0.clone();
    t.z += JFr::one();
    faults.push(("point".into(), t));
    for r in 0..t0.proof.l_vec.len() {
        let mut t = t0.clone();
        t.proof.l_vec[r] = rjj(rng);
        faults.push((format!("proof-l:{}", r), t));
        let mut t = t0.clone();
        t.proof.r_vec[r] = rjj(rng);
        faults.push((format!("proof-r:{}", r), t));
    }
    let mut t = t0.clone();
    t.proof.final_comm_key = rjj(rng);
    faults.push(("proof-final_comm_key".into(), t));
    let mut t = t0.clone();
    t.proof.c += JFr::one();
    faults.push(("proof-c".into(), t));
    if t0.proof.hiding_comm.is_some() {
        let mut t = t0.clone();
        t.proof.hiding_comm = Some(rjj(rng));
        faults.push(("proof-hiding_comm".into(), t));
        let mut t = t0.clone();
        t.proof.rand = Some(JFr::rand(rng));
        faults.push(("proof-rand".into(), t));
    }
    let k = below(rng, t0.vk.comm_key.len());
    let mut t = t0.clone();
    t.vk.comm_key[k] = rjj(rng);
    faults.push((format!("vk-comm_key:{}", k), t));
    let mut t = t0.clone();
    t.vk.h = rjj(rng);
    faults.push(("vk-h".into(), t));
    let mut t = t0.clone();
    t.vk.s = rjj(rng);
    faults.push(("vk-s".into(), t));
    for (name, t) in faults {
        let lib = ipa_lib(&t, &mut tx.sponge());
        let r = guard(|| ipa_refv(&t, &mut tx.sponge())).unwrap_or_else(|p| Err(format!("reference panicked: {}", p)));
        compare(ctx, "check", &name, &desc, &lib, r);
    }
}

// =================================================================================== Hyrax

#[derive(Clone)]
struct HyT {
    vk: hyrax::HyraxVerifierKey<JubJub>,
    comms: Vec<hyrax::HyraxCommitment<JubJub>>,
    z: Vec<JFr>,
    vals: Vec<JFr>,
    proof: Vec<hyrax::HyraxProof<JubJub>>,
}

fn tensor_le(vals: &[JFr]) -> Vec<JFr> {
    // EQ(i, values) for i in 0..2^k, first value is the most significant bit
    let mut out = vec![JFr::one()];
    for v in vals {
        let mut nxt = Vec::with_capacity(out.len() * 2);
        for o in &out {
            nxt.push(*o * (JFr::one() - v));
            nxt.push(*o * v);
        }
        out = nxt;
    }
    out
}

fn hyrax_ref(t: &HyT, sp: &mut Sp<JFr>) -> Result<bool, String> {
    let n = t.z.len();
    if n % 2 == 1 {
        return Err("odd number of variables".into());
    }
    if t.comms.len() != t.proof.len() || t.comms.len() != t.vals.len() {
        return Err("one proof element and one value per commitment".into());
    }
    let dim = 1usize << (n / 2);
    let rev: Vec<JFr> = t.z.iter().rev().cloned().collect();
    let l = tensor_le(&rev[n / 2..]);
    let r = tensor_le(&rev[..n / 2]);
    for (i, (cm, pf)) in t.comms.iter().zip(&t.proof).enumerate() {
        if cm.row_coms.len() != dim || pf.z.len() != dim || t.vk.com_key.len() != dim {
            return Err("commitment / proof dimension differs from 2^(n/2)".into());
        }
        let mut b = Vec::new();
        t.vk.serialize_uncompressed(&mut b).unwrap();
        sp.absorb(&b);
        let mut b = Vec::new();
        cm.row_coms.serialize_uncompressed(&mut b).unwrap();
        sp.absorb(&b);
        sp.absorb(&t.z);
        for g in [&pf.com_eval, &pf.com_d, &pf.com_b] {
            let mut b = Vec::new();
            g.serialize_uncompressed(&mut b).unwrap();
            sp.absorb(&b);
        }
        let c: JFr = sp.squeeze_field_elements(1)[0];
        // (14): <r, z> * g0 + z_b * h == c * com_eval + com_b
        let lhs = t.vk.com_key[0].mul(inner(&r, &pf.z)) + t.vk.h.mul(pf.z_b);
        if lhs != pf.com_eval.mul(c) + pf.com_b {
            return Ok(false);
        }
        // (13): com(z) + z_d h == c * sum_i l_i T_i + com_d
        let tprime = crate::oracle::naive_msm(&cm.row_coms, &l);
        let lhs = crate::oracle::naive_msm(&t.vk.com_key, &pf.z) + t.vk.h.mul(pf.z_d);
        if lhs != tprime.mul(c) + pf.com_d {
            return Ok(false);
        }
        // the evaluation commitment is the (unblinded) commitment to the claimed value
        if pf.com_eval != t.vk.com_key[0].mul(t.vals[i]).into_affine() {
            return Ok(false);
        }
    }
    Ok(true)
}

fn hyrax_lib(t: &HyT, sp: &mut Sp<JFr>) -> Out {
    let lc: Vec<LabeledCommitment<hyrax::HyraxCommitment<JubJub>>> = t.comms.iter().enumerate().map(|(i, c)| LabeledCommitment::new(format!("p{}", i), c.clone(), Some(1))).collect();
    crate::rt::decide(|| <PcOf<HyraxS>>::check(&t.vk, lc.iter(), &t.z, t.vals.iter().copied(), &t.proof, sp, None))
}

fn hyrax_case(ctx: &mut Ctx, rng: &mut ChaCha20Rng) {
    type S = HyraxS;
    let tx = match gen_tx::<S>(rng, false, 2) {
        Ok(t) => t,
        Err(_) => return ctx.skipped("baseline", "honest pipeline refused (reported under C01/C17)"),
    };
    let idx: Vec<usize> = (0..tx.polys.len()).collect();
    let z = <S as Scheme>::gen_point(&tx.w.cfg, rng);
    let proof = match open::<S>(&tx, &idx, &z, &mut tx.sponge(), 1) {
        Ok(p) => p,
        Err(_) => return ctx.skipped("baseline", "honest open refused"),
    };
    let vals: Vec<JFr> = idx.iter().map(|&i| tx.polys[i].evaluate(&z)).collect();
    let t0 = HyT { vk: tx.w.vk.clone(), comms: tx.c.comms.iter().map(|c| c.commitment().clone()).collect(), z: z.clone(), vals: vals.clone(), proof };
    let desc = json!({"tx": tx.json()});
    let mut faults: Vec<(String, HyT)> = vec![("honest".into(), t0.clone())];
    let dim = t0.vk.com_key.len();
    for i in 0..t0.comms.len() {
        let mut t = t0.clone();
        let k = below(rng, dim);
        t.comms[i].row_coms[k] = rjj(rng);
        faults.push((format!("row-commitment:{}", i), t));
        let mut t = t0.clone();
        t.vals[i] += JFr::rand(rng) + JFr::one();
        faults.push((format!("value:{}", i), t));
        let mut t = t0.clone();
        t.proof[i].com_eval = rjj(rng);
        faults.push((format!("proof-com_eval:{}", i), t));
        let mut t = t0.clone();
        t.proof[i].com_d = rjj(rng);
        faults.push((format!("proof-com_d:{}", i), t));
        let mut t = t0.clone();
        t.proof[i].com_b = rjj(rng);
        faults.push((format!("proof-com_b:{}", i), t));
        let mut t = t0.clone();
        let k = below(rng, dim);
        t.proof[i].z[k] += JFr::one();
        faults.push((format!("proof-z:{}", i), t));
        let mut t = t0.clone();
        t.proof[i].z_d += JFr::one();
        faults.push((format!("proof-z_d:{}", i), t));
        let mut t = t0.clone();
        t.proof[i].z_b += JFr::one();
        faults.push((format!("proof-z_b:{}", i), t));
    }
    if !t0.z.is_empty() {
        let mut t = t0.clone();
        let k = below(rng, t.z.len());
        t.z[k] += JFr::one();
        faults.push((format!("point-coordinate:{}", k), t));
    }
    let mut t = t0.clone();
    let k = below(rng, dim);
    t.vk.com_key[k] = rjj(rng);
    faults.push((format!("vk-com_key:{}", k), t));
    let mut t = t0.clone();
    t.vk.h = rjj(rng);
    faults.push(("vk-h".into(), t));
    for (name, t) in faults {
        let lib = hyrax_lib(&t, &mut tx.sponge());
        let r = guard(|| hyrax_ref(&t, &mut tx.sponge())).unwrap_or_else(|p| Err(format!("reference panicked: {}", p)));
        compare(ctx, "check", &name, &desc, &lib, r);
    }
}

// =================================================================================== linear codes

fn gcd(a: usize, b: usize) -> usize {
    if b == 0 {
        a
    } else {
        gcd(b, a % b)
    }
}

/// A random non-zero vector orthogonal to `b` (and to `r` if given); None if the kernel is trivial.
pub fn kernel_vector(b: &[LFr], r: Option<&[LFr]>, rng: &mut impl RngCore) -> Option<Vec<LFr>> {
    let n = b.len();
    let k = 1 + r.is_some() as usize;
    if n <= k {
        return None;
    }
    let mut d: Vec<LFr> = (0..n).map(|_| LFr::rand(rng)).collect();
    match r {
        None => {
            // fix coordinate i with b[i] != 0
            let i = (0..n).find(|&i| !b[i].is_zero())?;
            let rest: LFr = (0..n).filter(|&j| j != i).map(|j| b[j] * d[j]).sum();
            d[i] = -rest * b[i].inverse().unwrap();
        }
        Some(r) => {
            // fix two coordinates (i, j) with non-singular 2x2 minor
            let mut found = None;
            'o: for i in 0..n {
                for j in (i + 1)..n {
                    if !(b[i] * r[j] - b[j] * r[i]).is_zero() {
                        found = Some((i, j));
                        break 'o;
                    }
                }
            }
            let (i, j) = found?;
            let sb: LFr = (0..n).filter(|&x| x != i && x != j).map(|x| b[x] * d[x]).sum();
            let sr: LFr = (0..n).filter(|&x| x != i && x != j).map(|x| r[x] * d[x]).sum();
            let det = b[i] * r[j] - b[j] * r[i];
            let inv = det.inverse().unwrap();
            // b_i di + b_j dj = -sb ; r_i di + r_j dj = -sr
            d[i] = (-sb * r[j] + sr * b[j]) * inv;
            d[j] = (-sr * b[i] + sb * r[i]) * inv;
        }
    }
    if d.iter().all(|x| x.is_zero()) {
        return None;
    }
    debug_assert!(b.iter().zip(&d).map(|(x, y)| *x * y).sum::<LFr>().is_zero());
    Some(d)
}

fn lin_ref<S, L>(ck: &CkOf<S>, cm: &MLinCommitment, z: &PtOf<S>, value: LFr, pf: &MLinProof<LFr>, sp: &mut Sp<LFr>) -> Result<bool, String>
where
    S: Scheme<F = LFr>,
    L: LinearEncode<LFr, MtParams, POf<S>, ColHasher<LFr>, LinCodePCParams = CkOf<S>>,
    CkOf<S>: LinCodeParametersInfo<MtParams, ColHasher<LFr>>,
{
    let (n_rows, n_cols, n_ext) = (cm.metadata.n_rows, cm.metadata.n_cols, cm.metadata.n_ext_cols);
    let t = verif_calculate_t::<LFr>(ck.sec_param(), ck.distance(), n_ext).map_err(|e| format!("{:?}", e))?;
    if pf.opening.v.len() != n_cols || pf.opening.columns.len() != t || pf.opening.paths.len() != t || pf.opening.columns.iter().any(|c| c.len() != n_rows) {
        return Err("proof shape differs from the commitment metadata".into());
    }
    let mut rb = Vec::new();
    cm.root.serialize_compressed(&mut rb).unwrap();
    sp.absorb(&rb);
    let mut r = None;
    if ck.check_well_formedness() {
        let wf = pf.well_formedness.as_ref().ok_or("well-formedness vector missing")?;
        if wf.len() != n_cols {
            return Err("well-formedness vector length".into());
        }
        r = Some(sp.squeeze_field_elements::<LFr>(n_rows));
        sp.absorb(wf);
    }
    sp.absorb(&L::point_to_vec(z.clone()));
    sp.absorb(&pf.opening.v);
    let nb = ((usize::BITS - n_ext.leading_zeros()) as usize + 7) / 8;
    let mut idx = Vec::new();
    for _ in 0..t {
        let b = sp.squeeze_bytes(nb);
        sp.absorb(&b);
        idx.push(b.iter().fold(0usize, |a, x| (a << 8) + *x as usize) % n_ext);
    }
    let w = L::encode(&pf.opening.v, ck).map_err(|e| format!("{:?}", e))?;
    let wwf = match (&pf.well_formedness, &r) {
        (Some(wf), Some(_)) => Some(L::encode(wf, ck).map_err(|e| format!("{:?}", e))?),
        _ => None,
    };
    let (a, b) = L::tensor(z, n_cols, n_rows);
    for (j, &q) in idx.iter().enumerate() {
        let path = &pf.opening.paths[j];
        if path.leaf_index != q {
            return Err("leaf index differs from the transcript-derived position".into());
        }
        let col = &pf.opening.columns[j];
        let mut bytes = Vec::new();
        col.serialize_compressed(&mut bytes).unwrap();
        use digest::Digest;
        let leaf = blake2::Blake2s256::digest(&bytes).to_vec();
        if merkle_root_from_path(&leaf, q, &path.leaf_sibling_hash, &path.auth_path) != cm.root {
            return Err("column not authenticated by the root".into());
        }
        if let (Some(wwf), Some(r)) = (&wwf, &r) {
            if inner(r, col) != wwf[q] {
                return Err("well-formedness column check".into());
            }
        }
        if inner(&b, col) != w[q] {
            return Err("column check".into());
        }
    }
    Ok(inner(&pf.opening.v, &a) == value)
}

fn linear<S, L>(ctx: &mut Ctx, rng: &mut ChaCha20Rng)
where
    S: Scheme<F = LFr>,
    S::PC: PolynomialCommitment<LFr, POf<S>, VerifierKey = CkOf<S>>,
    L: LinearEncode<LFr, MtParams, POf<S>, ColHasher<LFr>, LinCodePCParams = CkOf<S>>,
    CkOf<S>: LinCodeParametersInfo<MtParams, ColHasher<LFr>> + Clone,
{
    let cfg = if S::KIND == Kind::Univariate {
        // a third of the cases beyond 380 coefficients: matrices with four and more rows
        let d = if rng.next_u32() % 3 == 0 { range(rng, 381, 1500) } else { range(rng, 1, 300) };
        Cfg { max_degree: d, num_vars: None, supported_degree: d, supported_hiding: 0, enforced: None }
    } else {
        let nv = if rng.next_u32() % 3 == 0 { range(rng, 9, 11) } else { range(rng, 1, 8) };
        Cfg { max_degree: 1, num_vars: Some(nv), supported_degree: 1, supported_hiding: 0, enforced: None }
    };
    let w = match make_world::<S>(&cfg, rng) {
        Ok(w) => w,
        Err(_) => return ctx.skipped("baseline", "setup refused"),
    };
    let deg = if S::KIND == Kind::Univariate { cfg.supported_degree } else { 0 };
    let p: LPoly<S> = LabeledPolynomial::new("p".into(), S::gen_poly(&cfg, pick_shape(rng), deg, rng), None, None);
    let c = match commit::<S>(&w.ck, std::slice::from_ref(&p), 1) {
        Ok(c) => c,
        Err(_) => return ctx.skipped("baseline", "commit refused"),
    };
    let z = S::gen_point(&cfg, rng);
    let value = p.evaluate(&z);
    let pre = b"c10-lin".to_vec();
    let mut r = crate::probe::mon_rng(1);
    let proof = match attempt(|| PcOf::<S>::open(&w.ck, [&p], c.comms.iter(), &z, &mut crate::probe::sponge::<LFr>(&pre), c.states.iter(), Some(&mut r))) {
        Ok(p) => p,
        Err(_) => return ctx.skipped("baseline", "open refused"),
    };
    let bp: BatchProofOf<S> = vec![proof].into();
    let (cm0, mp): (MLinCommitment, Vec<Vec<MLinProof<LFr>>>) = match (convert(c.comms[0].commitment()), convert(&bp)) {
        (Ok(a), Ok(b)) => (a, b),
        _ => return ctx.skipped("baseline", "mirror failed"),
    };
    let pf0 = mp[0][0].clone();
    let desc = json!({"cfg": cfg.json(), "n_rows": cm0.metadata.n_rows, "n_cols": cm0.metadata.n_cols, "n_ext_cols": cm0.metadata.n_ext_cols, "columns": pf0.opening.columns.len()});
    let mut faults: Vec<(String, MLinCommitment, PtOf<S>, LFr, MLinProof<LFr>)> = vec![("honest".into(), cm0.clone(), z.clone(), value, pf0.clone())];
    {
        let mut cm = cm0.clone();
        cm.root[0] ^= 1;
        faults.push(("commitment-root".into(), cm, z.clone(), value, pf0.clone()));
        faults.push(("value".into(), cm0.clone(), z.clone(), value + LFr::one(), pf0.clone()));
        let z2 = S::other_point(&cfg, &z, rng);
        faults.push(("point".into(), cm0.clone(), z2, value, pf0.clone()));
        let mut pf = pf0.clone();
        let k = below(rng, pf.opening.v.len());
        pf.opening.v[k] += LFr::one();
        faults.push(("proof-v".into(), cm0.clone(), z.clone(), value, pf));
        if let Some(wf) = &pf0.well_formedness {
            let mut pf = pf0.clone();
            let k = below(rng, wf.len());
            pf.well_formedness.as_mut().unwrap()[k] += LFr::one();
            faults.push(("proof-well_formedness".into(), cm0.clone(), z.clone(), value, pf));
        }
        if !pf0.opening.columns.is_empty() {
            let j = below(rng, pf0.opening.columns.len());
            let mut pf = pf0.clone();
            let k = below(rng, pf.opening.columns[j].len());
            pf.opening.columns[j][k] += LFr::one();
            faults.push(("proof-column-entry".into(), cm0.clone(), z.clone(), value, pf));
            let mut pf = pf0.clone();
            pf.opening.paths[j].leaf_sibling_hash = vec![9u8; 32];
            faults.push(("proof-path-leaf-sibling".into(), cm0.clone(), z.clone(), value, pf));
            if !pf0.opening.paths[j].auth_path.is_empty() {
                let mut pf = pf0.clone();
                let k = below(rng, pf.opening.paths[j].auth_path.len());
                pf.opening.paths[j].auth_path[k] = vec![3u8; 32];
                faults.push(("proof-path-inner-sibling".into(), cm0.clone(), z.clone(), value, pf));
            }
            let mut pf = pf0.clone();
            pf.opening.paths[j].leaf_index ^= 1;
            faults.push(("proof-path-leaf-index".into(), cm0.clone(), z.clone(), value, pf));
            // an index OUTSIDE the codeword that is congruent to the queried position modulo the codeword length and
            // modulo the (power-of-two) tree width: reduced comparisons and the tree walk cannot tell it from q_j
            let n_ext = cm0.metadata.n_ext_cols;
            let width = n_ext.next_power_of_two();
            let step = n_ext / gcd(n_ext, width) * width;
            let mut pf = pf0.clone();
            pf.opening.paths[j].leaf_index += step * range(rng, 1, 3);
            faults.push(("proof-path-leaf-index-aliased".into(), cm0.clone(), z.clone(), value, pf));
            let mut pf = pf0.clone();
            pf.opening.paths[j].leaf_index += n_ext;
            faults.push(("proof-path-leaf-index-plus-codeword-length".into(), cm0.clone(), z.clone(), value, pf));
            // a position the transcript opens twice: the later copy of the column is shifted inside the kernel of the
            // verifier's linear tests (row combination b, and r with well-formedness), its path left alone
            let pos: Vec<usize> = pf0.opening.paths.iter().map(|p| p.leaf_index).collect();
            let dup = (0..pos.len()).find(|&j2| pos[..j2].contains(&pos[j2]));
            let (_, bvec) = L::tensor(&z, cm0.metadata.n_cols, cm0.metadata.n_rows);
            let rvec: Option<Vec<LFr>> = if w.ck.check_well_formedness() {
                let mut sp = crate::probe::sponge::<LFr>(&pre);
                let mut rb = Vec::new();
                cm0.root.serialize_compressed(&mut rb).unwrap();
                sp.absorb(&rb);
                Some(sp.squeeze_field_elements::<LFr>(cm0.metadata.n_rows))
            } else {
                None
            };
            if let (Some(j2), Some(delta)) = (dup, kernel_vector(&bvec, rvec.as_deref(), rng)) {
                let mut pf = pf0.clone();
                for (x, d) in pf.opening.columns[j2].iter_mut().zip(&delta) {
                    *x += *d;
                }
                faults.push(("proof-column-kernel-shift-at-repeated-position".into(), cm0.clone(), z.clone(), value, pf));
            }
        }
    }
    // compensated pair that keeps the SUM of the two column tests true but neither of them: v + delta with
    // well-formedness - delta, columns and paths re-answered honestly for the positions this transcript selects,
    // claimed value <v + delta, a>
    if let (Some(wf), Ok(st)) = (&pf0.well_formedness, convert::<_, crate::mirror::MLinState<LFr>>(&c.states[0])) {
        use super::c03_lin::{cols_paths, transcript, tree_of, Ctxt};
        let cx = Ctxt::<S> { ck: &w.ck, cm: cm0.clone(), tree: tree_of(&st.leaves), st, z: z.clone(), pre: pre.clone() };
        let delta: Vec<LFr> = (0..pf0.opening.v.len()).map(|_| LFr::rand(rng)).collect();
        let v2: Vec<LFr> = pf0.opening.v.iter().zip(&delta).map(|(x, d)| *x + d).collect();
        let wf2: Vec<LFr> = wf.iter().zip(&delta).map(|(x, d)| *x - d).collect();
        let (a_vec, _) = L::tensor(&z, cm0.metadata.n_cols, cm0.metadata.n_rows);
        let claim = inner(&v2, &a_vec);
        let (_, idx) = transcript::<S, L>(&cx, Some(&wf2), &v2, false);
        let (cols, paths) = cols_paths(&cx.st, &cx.tree, &idx);
        let mut pf = pf0.clone();
        pf.opening.v = v2;
        pf.opening.columns = cols;
        pf.opening.paths = paths;
        pf.well_formedness = Some(wf2);
        faults.push(("compensated:v+delta,well_formedness-delta".into(), cm0.clone(), z.clone(), claim, pf));
    }
    // paths of OTHER leaves that carry an identical column: only the leaf-index test can tell them apart.
    // Built on the zero polynomial, whose encoded matrix has all columns equal.
    {
        use crate::mirror::MLinState;
        use ark_crypto_primitives::merkle_tree::MerkleTree;
        let zp: LPoly<S> = LabeledPolynomial::new("p".into(), S::gen_poly(&cfg, Shape::Zero, 0, rng), None, None);
        if let Ok(cz) = commit::<S>(&w.ck, std::slice::from_ref(&zp), 1) {
            let mut r2 = crate::probe::mon_rng(1);
            let opened = attempt(|| PcOf::<S>::open(&w.ck, [&zp], cz.comms.iter(), &z, &mut crate::probe::sponge::<LFr>(&pre), cz.states.iter(), Some(&mut r2)));
            if let (Ok(pfz), Ok(cmz), Ok(stz)) = (opened, convert::<_, MLinCommitment>(cz.comms[0].commitment()), convert::<_, MLinState<LFr>>(&cz.states[0])) {
                let bpz: BatchProofOf<S> = vec![pfz].into();
                if let Ok(mpz) = convert::<_, Vec<Vec<MLinProof<LFr>>>>(&bpz) {
                    let mut pf = mpz[0][0].clone();
                    let n_ext = cmz.metadata.n_ext_cols;
                    let mut leaves = stz.leaves.clone();
                    leaves.resize(leaves.len().next_power_of_two(), Vec::new());
                    if let Ok(tree) = MerkleTree::<MtParams>::new(&(), &(), leaves) {
                        let sft = range(rng, 1, n_ext - 1);
                        let mut changed = false;
                        for path in pf.opening.paths.iter_mut() {
                            let j = (path.leaf_index + sft) % n_ext;
                            if let Ok(np) = tree.generate_proof(j) {
                                *path = np;
                                changed = true;
                            }
                        }
                        if changed {
                            faults.push(("proof-paths-of-other-equal-leaves".into(), cmz.clone(), z.clone(), LFr::zero(), pf));
                        }
                    }
                }
            }
        }
    }
    for (name, cm, zz, val, pf) in faults {
        let lc: Result<CommOf<S>, String> = convert(&cm);
        let lp: Result<BatchProofOf<S>, String> = convert(&vec![vec![pf.clone()]]);
        let (lc, lp) = match (lc, lp) {
            (Ok(a), Ok(b)) => (a, b),
            _ => {
                ctx.skipped("single-fault-agrees", "mutated artefact could not be re-encoded");
                continue;
            }
        };
        let lcomm: LComm<S> = LabeledCommitment::new("p".into(), lc, None);
        let mut ps: Vec<ProofOf<S>> = lp.into();
        let lib = check::<S>(&w.vk, &[&lcomm], &zz, &[val], &ps.remove(0), &mut crate::probe::sponge::<LFr>(&pre), 1);
        let r = guard(|| lin_ref::<S, L>(&w.ck, &cm, &zz, val, &pf, &mut crate::probe::sponge::<LFr>(&pre))).unwrap_or_else(|p| Err(format!("reference panicked: {}", p)));
        compare(ctx, "check", &name, &desc, &lib, r);
    }
}

// =================================================================================== off-trait schemes

fn kzg10_case(ctx: &mut Ctx, rng: &mut ChaCha20Rng) {
    use super::offtrait::{kzg_item, kzg_world};
    type K = kzg10::KZG10<E, DensePolynomial<Fr>>;
    let w = match kzg_world(rng) {
        Ok(w) => w,
        Err(_) => return ctx.skipped("baseline", "setup refused"),
    };
    let it = match kzg_item(&w, rng) {
        Ok(i) => i,
        Err(_) => return ctx.skipped("baseline", "honest pipeline refused"),
    };
    let vk0 = w.vk();
    let reference = |vk: &kzg10::VerifierKey<E>, c: &kzg10::Commitment<E>, z: Fr, v: Fr, p: &kzg10::Proof<E>| -> bool {
        let mut lhs = c.0.into_group() - vk.g.mul(v);
        if let Some(rv) = p.random_v {
            lhs -= vk.gamma_g.mul(rv);
        }
        E::pairing(lhs, vk.h) == E::pairing(p.w, vk.beta_h.into_group() - vk.h.mul(z))
    };
    let mut cases: Vec<(String, kzg10::VerifierKey<E>, kzg10::Commitment<E>, Fr, Fr, kzg10::Proof<E>)> = vec![("honest".into(), vk0.clone(), it.comm, it.z, it.v, it.proof)];
    cases.push(("commitment".into(), vk0.clone(), kzg10::Commitment(rg1(rng)), it.z, it.v, it.proof));
    cases.push(("value".into(), vk0.clone(), it.comm, it.z, it.v + Fr::one(), it.proof));
    cases.push(("point".into(), vk0.clone(), it.comm, it.z + Fr::one(), it.v, it.proof));
    cases.push(("proof-w".into(), vk0.clone(), it.comm, it.z, it.v, kzg10::Proof { w: rg1(rng), random_v: it.proof.random_v }));
    cases.push(("proof-random_v".into(), vk0.clone(), it.comm, it.z, it.v, kzg10::Proof { w: it.proof.w, random_v: Some(Fr::rand(rng)) }));
    let mut v = vk0.clone();
    v.g = rg1(rng);
    cases.push(("vk-g".into(), v, it.comm, it.z, it.v, it.proof));
    let mut v = vk0.clone();
    v.beta_h = rg2(rng);
    v.prepared_beta_h = v.beta_h.into();
    cases.push(("vk-beta_h".into(), v, it.comm, it.z, it.v, it.proof));
    let d = Fr::rand(rng);
    cases.push(("compensated:commitment+value".into(), vk0.clone(), kzg10::Commitment((it.comm.0.into_group() + vk0.g.mul(d)).into_affine()), it.z, it.v + d, it.proof));
    for (name, vk, c, z, v, p) in cases {
        let lib = crate::rt::decide(|| K::check(&vk, &c, z, v, &p));
        compare(ctx, "KZG10::check", &name, &it.desc, &lib, Ok(reference(&vk, &c, z, v, &p)));
        // the batch verifier on a single claim decides the same relation (through the prepared key elements)
        let mut r = crate::probe::mon_rng(4);
        let lib = crate::rt::decide(|| K::batch_check(&vk, &[c], &[z], &[v], &[p], &mut r));
        compare(ctx, "KZG10::batch_check", &name, &it.desc, &lib, Ok(reference(&vk, &c, z, v, &p)));
    }
}

fn mlpst_case(ctx: &mut Ctx, rng: &mut ChaCha20Rng) {
    use super::offtrait::{ml_item, MlItem};
    use ark_poly_commit::multilinear_pc::MultilinearPC;
    let it: MlItem = match ml_item(rng, 6) {
        Ok(i) => i,
        Err(_) => return ctx.skipped("baseline", "honest pipeline refused"),
    };
    type Vk = ark_poly_commit::multilinear_pc::data_structures::VerifierKey<E>;
    type Cm = ark_poly_commit::multilinear_pc::data_structures::Commitment<E>;
    type Pf = ark_poly_commit::multilinear_pc::data_structures::Proof<E>;
    let reference = |vk: &Vk, c: &Cm, z: &[Fr], v: Fr, p: &Pf| -> Result<bool, String> {
        if p.proofs.len() != vk.nv || z.len() != vk.nv || vk.g_mask_random.len() != vk.nv {
            return Err("proof / point length differs from the number of variables".into());
        }
        let lhs = E::pairing(c.g_product.into_group() - vk.g.mul(v), vk.h).0;
        let mut rhs = <E as Pairing>::TargetField::one();
        for i in 0..vk.nv {
            rhs *= E::pairing(vk.g_mask_random[i].into_group() - vk.g.mul(z[i]), p.proofs[i]).0;
        }
        Ok(lhs == rhs)
    };
    let mut cases: Vec<(String, Vk, Cm, Vec<Fr>, Fr, Pf)> = vec![("honest".into(), it.vk.clone(), it.comm.clone(), it.z.clone(), it.v, it.proof.clone())];
    let mut c = it.comm.clone();
    c.g_product = rg1(rng);
    cases.push(("commitment".into(), it.vk.clone(), c, it.z.clone(), it.v, it.proof.clone()));
    cases.push(("value".into(), it.vk.clone(), it.comm.clone(), it.z.clone(), it.v + Fr::one(), it.proof.clone()));
    for j in 0..it.nv {
        let mut z = it.z.clone();
        z[j] += Fr::one();
        cases.push((format!("point-coordinate:{}", j), it.vk.clone(), it.comm.clone(), z, it.v, it.proof.clone()));
        let mut p = it.proof.clone();
        p.proofs[j] = rg2(rng);
        cases.push((format!("proof-element:{}", j), it.vk.clone(), it.comm.clone(), it.z.clone(), it.v, p));
        let mut vk = it.vk.clone();
        vk.g_mask_random[j] = rg1(rng);
        cases.push((format!("vk-g_mask:{}", j), vk, it.comm.clone(), it.z.clone(), it.v, it.proof.clone()));
    }
    let mut vk = it.vk.clone();
    vk.h = rg2(rng);
    cases.push(("vk-h".into(), vk, it.comm.clone(), it.z.clone(), it.v, it.proof.clone()));
    let d = Fr::rand(rng);
    let mut c = it.comm.clone();
    c.g_product = (c.g_product.into_group() + it.vk.g.mul(d)).into_affine();
    cases.push(("compensated:commitment+value".into(), it.vk.clone(), c, it.z.clone(), it.v + d, it.proof.clone()));
    for (name, vk, c, z, v, p) in cases {
        let lib = match guard(|| MultilinearPC::<E>::check(&vk, &c, &z, v, &p)) {
            Ok(true) => Out::Accept,
            Ok(false) => Out::Reject,
            Err(e) => Out::Panic(e),
        };
        compare(ctx, "MultilinearPC::check", &name, &it.desc, &lib, reference(&vk, &c, &z, v, &p));
    }
}

fn streaming_case(ctx: &mut Ctx, rng: &mut ChaCha20Rng) {
    use super::offtrait::{eval_le, stream_poly, stream_world};
    use ark_poly_commit::streaming_kzg::{Commitment, EvaluationProof};
    let w = match stream_world(rng, 64) {
        Ok(w) => w,
        Err(_) => return ctx.skipped("baseline", "setup refused"),
    };
    let (poly, _) = stream_poly(&w, rng);
    let alpha = Fr::rand(rng);
    let (c, (ev, pf)) = match guard(|| (w.ck.commit(&poly), w.ck.open(&poly, &alpha))) {
        Ok(x) => x,
        Err(_) => return ctx.skipped("baseline", "honest pipeline refused"),
    };
    let (g1, g2) = w.vk.verif_parts();
    let (g, h, th) = (g1[0], g2[0], g2[1]);
    let reference = |c: G1, a: Fr, v: Fr, p: G1| E::pairing(c.into_group() - g.mul(v), h) == E::pairing(p, th.into_group() - h.mul(a));
    let desc = json!({"max_degree": w.max_degree, "len": poly.len(), "true_evaluation": ev == eval_le(&poly, &alpha)});
    let d = Fr::rand(rng);
    let cases: Vec<(String, G1, Fr, Fr, G1)> = vec![
        ("honest".into(), c.verif_point(), alpha, ev, pf.0),
        ("commitment".into(), rg1(rng), alpha, ev, pf.0),
        ("value".into(), c.verif_point(), alpha, ev + Fr::one(), pf.0),
        ("point".into(), c.verif_point(), alpha + Fr::one(), ev, pf.0),
        ("proof".into(), c.verif_point(), alpha, ev, rg1(rng)),
        ("compensated:commitment+value".into(), (c.verif_point().into_group() + g.mul(d)).into_affine(), alpha, ev + d, pf.0),
    ];
    for (name, cc, a, v, p) in cases {
        let lib = match guard(|| w.vk.verify(&Commitment::<E>::verif_from_point(cc), &a, &v, &EvaluationProof::<E>(p)).is_ok()) {
            Ok(true) => Out::Accept,
            Ok(false) => Out::Reject,
            Err(e) => Out::Panic(e),
        };
        compare(ctx, "streaming::verify", &name, &desc, &lib, Ok(reference(cc, a, v, p)));
    }
}

/// Multi-point, multi-polynomial relation of the streaming verifier:
/// e(sum_i eta^i C_i - [I(tau)]_1, h) == e(pi, [Z(tau)]_2), I = sum_i eta^i I_i with I_i the interpolant of the
/// claimed values of polynomial i over the points, Z the vanishing polynomial of the points.
fn streaming_multi_case(ctx: &mut Ctx, rng: &mut ChaCha20Rng) {
    use super::offtrait::{eval_le, stream_poly, stream_world};
    use ark_poly_commit::streaming_kzg::{Commitment, EvaluationProof};
    let w = match stream_world(rng, 64) {
        Ok(w) => w,
        Err(_) => return ctx.skipped("baseline", "setup refused"),
    };
    let npolys = 1 + (rng.next_u32() % 4) as usize;
    let mut polys: Vec<Vec<Fr>> = (0..npolys).map(|_| stream_poly(&w, rng).0).collect();
    // half of the cases carry a zero, constant or linear polynomial at a drawn list position
    let special = if rng.next_u32() % 2 == 0 {
        let i = (rng.next_u32() as usize) % npolys;
        let kind = rng.next_u32() % 3;
        polys[i] = match kind {
            0 => vec![Fr::zero()],
            1 => vec![Fr::rand(rng)],
            _ => if w.max_degree >= 1 { vec![Fr::rand(rng), Fr::rand(rng)] } else { vec![Fr::rand(rng)] },
        };
        Some((i, ["zero", "constant", "linear"][kind as usize]))
    } else {
        None
    };
    let npts = 1 + (rng.next_u32() as usize) % w.max_pts;
    let mut pts: Vec<Fr> = Vec::new();
    while pts.len() < npts {
        let x = Fr::rand(rng);
        if !pts.contains(&x) {
            pts.push(x);
        }
    }
    let eta: Fr = if rng.next_u32() % 4 == 0 { Fr::from(rng.next_u64()) } else { Fr::rand(rng) };
    let r = guard(|| {
        let refs: Vec<&Vec<Fr>> = polys.iter().collect();
        (w.ck.batch_commit(&polys), w.ck.batch_open_multi_points(&refs, &pts, &eta))
    });
    let (comms, pf) = match r {
        Ok(x) => x,
        Err(_) => return ctx.skipped("baseline", "honest pipeline refused"),
    };
    let (g1, g2) = w.ck.verif_powers();
    let (g1, g2) = (g1.to_vec(), g2.to_vec());
    if g2.len() < npts + 1 {
        return ctx.skipped("baseline", "key holds too few G2 powers for the point set");
    }
    // vanishing polynomial and Lagrange basis, little-endian
    let mul_lin = |a: &[Fr], x: &Fr| -> Vec<Fr> {
        let mut o = vec![Fr::zero(); a.len() + 1];
        for (i, c) in a.iter().enumerate() {
            o[i + 1] += c;
            o[i] -= *x * c;
        }
        o
    };
    let mut zpoly = vec![Fr::one()];
    for x in &pts {
        zpoly = mul_lin(&zpoly, x);
    }
    let basis: Vec<Vec<Fr>> = (0..npts)
        .map(|j| {
            let mut b = vec![Fr::one()];
            let mut den = Fr::one();
            for (m, x) in pts.iter().enumerate() {
                if m != j {
                    b = mul_lin(&b, x);
                    den *= pts[j] - x;
                }
            }
            let inv = den.inverse().unwrap();
            b.iter().map(|c| *c * inv).collect()
        })
        .collect();
    let zt = crate::oracle::naive_msm(&g2[..npts + 1], &zpoly);
    let h = g2[0];
    let reference = |cs: &[G1], ps: &[Fr], evs: &[Vec<Fr>], proof: G1| -> Result<bool, String> {
        if cs.len() != evs.len() || evs.iter().any(|e| e.len() != ps.len()) {
            return Err("shape".into());
        }
        // the interpolation basis belongs to `ps`; only called with ps == pts or a set of the same size
        let mut lhs = <E as Pairing>::G1::zero();
        let mut interp = vec![Fr::zero(); ps.len()];
        let mut e = Fr::one();
        let local_basis: Vec<Vec<Fr>> = if ps == &pts[..] {
            basis.clone()
        } else {
            (0..ps.len())
                .map(|j| {
                    let mut b = vec![Fr::one()];
                    let mut den = Fr::one();
                    for (m, x) in ps.iter().enumerate() {
                        if m != j {
                            b = mul_lin(&b, x);
                            den *= ps[j] - x;
                        }
                    }
                    let inv = den.inverse().unwrap();
                    b.iter().map(|c| *c * inv).collect()
                })
                .collect()
        };
        let zt_local = if ps == &pts[..] {
            zt
        } else {
            let mut zp = vec![Fr::one()];
            for x in ps {
                zp = mul_lin(&zp, x);
            }
            crate::oracle::naive_msm(&g2[..ps.len() + 1], &zp)
        };
        for (c, ev) in cs.iter().zip(evs) {
            lhs += c.mul(e);
            for (j, y) in ev.iter().enumerate() {
                for (k, b) in local_basis[j].iter().enumerate() {
                    interp[k] += e * y * b;
                }
            }
            e *= eta;
        }
        lhs -= crate::oracle::naive_msm(&g1[..interp.len()], &interp);
        Ok(E::pairing(lhs, h) == E::pairing(proof, zt_local))
    };
    let evals: Vec<Vec<Fr>> = polys.iter().map(|p| pts.iter().map(|x| eval_le(p, x)).collect()).collect();
    let cpts: Vec<G1> = comms.iter().map(|c| c.verif_point()).collect();
    let desc = json!({"max_degree": w.max_degree, "lens": polys.iter().map(|p| p.len()).collect::<Vec<_>>(), "npoints": npts,
        "special": special.map(|(i, k)| json!({"position": i, "kind": k}))});
    let i = special.map(|(i, _)| i).filter(|_| rng.next_u32() % 2 == 0).unwrap_or((rng.next_u32() as usize) % npolys);
    let j = (rng.next_u32() as usize) % npts;
    let d = Fr::rand(rng);
    let mut cases: Vec<(String, Vec<G1>, Vec<Fr>, Vec<Vec<Fr>>, G1)> = vec![("honest".into(), cpts.clone(), pts.clone(), evals.clone(), pf.0)];
    {
        let mut c2 = cpts.clone();
        c2[i] = rg1(rng);
        cases.push(("commitment".into(), c2, pts.clone(), evals.clone(), pf.0));
        let mut c3 = cpts.clone();
        c3[i] = (c3[i].into_group() + g1[0].mul(d)).into_affine();
        cases.push(("commitment:shifted-by-constant".into(), c3.clone(), pts.clone(), evals.clone(), pf.0));
        let mut e2 = evals.clone();
        e2[i][j] += Fr::one();
        cases.push(("value".into(), cpts.clone(), pts.clone(), e2, pf.0));
        let mut p2 = pts.clone();
        p2[j] += Fr::one();
        if !pts.contains(&p2[j]) {
            cases.push(("point".into(), cpts.clone(), p2, evals.clone(), pf.0));
        }
        cases.push(("proof".into(), cpts.clone(), pts.clone(), evals.clone(), rg1(rng)));
        // the commitment moved by d*g together with every value of that polynomial moved by d: a true statement
        let mut e3 = evals.clone();
        for y in e3[i].iter_mut() {
            *y += d;
        }
        cases.push(("compensated:commitment+values".into(), c3, pts.clone(), e3, pf.0));
    }
    for (name, cs, ps, evs, p) in cases {
        let lib = match guard(|| {
            let cc: Vec<Commitment<E>> = cs.iter().map(|c| Commitment::<E>::verif_from_point(*c)).collect();
            w.vk.verify_multi_points(&cc, &ps, &evs, &EvaluationProof::<E>(p), &eta).is_ok()
        }) {
            Ok(true) => Out::Accept,
            Ok(false) => Out::Reject,
            Err(e) => Out::Panic(e),
        };
        let mut dd = desc.clone();
        dd["position"] = json!(i);
        compare(ctx, "streaming::verify_multi_points", &name, &dd, &lib, reference(&cs, &ps, &evs, p));
    }
}

pub fn run(ctx: &mut Ctx) {
    crate::schemes::set_custom_params(true);
    let n = ctx.n(60, 1200);
    ctx.run_cases("marlin", n / 2, |ctx, _i, rng| marlin(ctx, rng));
    ctx.run_cases("sonic", n / 2, |ctx, _i, rng| sonic(ctx, rng));
    ctx.run_cases("pst13", n / 4, |ctx, _i, rng| pst13(ctx, rng));
    ctx.run_cases("ipa", n, |ctx, _i, rng| ipa(ctx, rng));
    ctx.run_cases("hyrax", n, |ctx, _i, rng| hyrax_case(ctx, rng));
    ctx.run_cases("ligero-uni", n, |ctx, _i, rng| linear::<UniLigeroS, UniLigeroEnc>(ctx, rng));
    ctx.run_cases("ligero-ml", n, |ctx, _i, rng| linear::<MlLigeroS, MlLigeroEnc>(ctx, rng));
    ctx.run_cases("brakedown", n / 2, |ctx, _i, rng| linear::<BrakedownS, BrakedownEnc>(ctx, rng));
    ctx.run_cases("kzg10", n, |ctx, _i, rng| kzg10_case(ctx, rng));
    ctx.run_cases("mlpst", n / 2, |ctx, _i, rng| mlpst_case(ctx, rng));
    ctx.run_cases("streaming", n, |ctx, _i, rng| streaming_case(ctx, rng));
    ctx.run_cases("streaming/multi", n, |ctx, _i, rng| streaming_multi_case(ctx, rng));
}
