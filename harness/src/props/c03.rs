//! C03 — no crafted or malformed proof proves a false claim (finite attack catalogue).
use crate::for_each_scheme;
use crate::ipa_ref;
use crate::probe::mon_rng;
use crate::rt::{attempt, Ctx, Out};
use crate::scen::*;
use crate::schemes::*;
use ark_ec::{AffineRepr, CurveGroup};
use ark_ff::{Field, One, UniformRand, Zero};
use ark_poly::{univariate::DensePolynomial, DenseUVPolynomial, Polynomial};
use ark_poly_commit::{ipa_pc, kzg10, marlin_pst13_pc, Evaluations, LabeledPolynomial, PolynomialCommitment, QuerySet};
use ark_std::ops::Mul;
use rand_chacha::ChaCha20Rng;
use rand_core::RngCore;
use serde_json::{json, Value};

fn judge(ctx: &mut Ctx, class: &str, entry: &str, desc: &Value, claim_false: bool, o: &Out, extra: Value) {
    if !claim_false {
        return ctx.skipped(class, "claimed value equals the true evaluation");
    }
    ctx.count(&format!("outcome:{}:{}", class, o.tag()), 1);
    let mut d = desc.clone();
    d["attack"] = extra;
    ctx.check(!o.is_accept(), class, entry, d, || json!({"outcome": o.json()}));
}

/// Attacks that only need the library's own prover: every trait scheme.
fn generic_case<S: Scheme>(ctx: &mut Ctx, rng: &mut ChaCha20Rng) {
    let cfg = S::gen_cfg(rng, false);
    let w = match make_world::<S>(&cfg, rng) {
        Ok(w) => w,
        Err(_) => return ctx.skipped("baseline", "setup/trim refused (reported under C01/C09)"),
    };
    let maxd = S::max_poly_degree(&cfg);
    let deg = range(rng, 1.min(maxd), maxd);
    let bounds = usable_bounds::<S>(&cfg);
    let bound = if S::BOUNDS && rng.next_u32() % 3 == 0 { bounds.iter().copied().filter(|b| *b >= deg).min() } else { None };
    let hiding = if S::HIDING && cfg.supported_hiding >= 1 && rng.next_u32() % 2 == 0 && bound.map(|b| b >= 1).unwrap_or(true) { Some(1usize) } else { None };
    let p: LPoly<S> = LabeledPolynomial::new("p".into(), S::gen_poly(&cfg, Shape::Full, deg, rng), bound, hiding);
    let q: LPoly<S> = LabeledPolynomial::new("p".into(), S::gen_poly(&cfg, Shape::Full, deg, rng), bound, hiding);
    let (cp, cq) = match (commit::<S>(&w.ck, std::slice::from_ref(&p), rng.next_u64()), commit::<S>(&w.ck, std::slice::from_ref(&q), rng.next_u64())) {
        (Ok(a), Ok(b)) => (a, b),
        _ => return ctx.skipped("baseline", "commit refused (reported under C01/C17)"),
    };
    let z = S::gen_point(&cfg, rng);
    let z2 = S::other_point(&cfg, &z, rng);
    let truth = p.evaluate(&z);
    let mut pre = vec![0u8; below(rng, 16)];
    rng.fill_bytes(&mut pre);
    let sp = || crate::probe::sponge::<FOf<S>>(&pre);
    let desc = json!({"cfg": cfg.json(), "degree": deg, "bound": bound, "hiding": hiding});
    let open_with = |poly: &LPoly<S>, comms: &Committed<S>, states: &Committed<S>, at: &PtOf<S>| -> Result<ProofOf<S>, Out> {
        let mut s = sp();
        let mut r = mon_rng(5);
        attempt(|| PcOf::<S>::open(&w.ck, [poly], comms.comms.iter(), at, &mut s, states.states.iter(), Some(&mut r)))
    };
    let chk = |value: FOf<S>, proof: &ProofOf<S>, at: &PtOf<S>| check::<S>(&w.vk, &[&cp.comms[0]], at, &[value], proof, &mut sp(), 1);
    // positive control
    match open_with(&p, &cp, &cp, &z) {
        Ok(pf) => {
            if chk(truth, &pf, &z) != Out::Accept {
                return ctx.skipped("baseline", "honest proof not accepted (reported under C01)");
            }
        }
        Err(_) => return ctx.skipped("baseline", "honest open refused (reported under C01)"),
    }
    // (1a) the library prover run on (q, state_q) but handed commitment(p)
    match open_with(&q, &cp, &cq, &z) {
        Err(_) => ctx.skipped("foreign-state-proof", "library prover refuses the mismatched inputs"),
        Ok(pf) => {
            let v = q.evaluate(&z);
            let o = chk(v, &pf, &z);
            judge(ctx, "foreign-state-proof", "check", &desc, v != truth, &o, json!({"claimed": "q(z)"}));
        }
    }
    // (1b) honest proof for (p, z') replayed for z
    if let Ok(pf) = open_with(&p, &cp, &cp, &z2) {
        let v = p.evaluate(&z2);
        let o = chk(v, &pf, &z);
        judge(ctx, "replayed-other-point", "check", &desc, v != truth && z2 != z, &o, json!({"claimed": "p(z')"}));
    }
    // (1c) honest proof for commitment(q) presented for commitment(p)
    if let Ok(pf) = open_with(&q, &cq, &cq, &z) {
        let v = q.evaluate(&z);
        let o = chk(v, &pf, &z);
        judge(ctx, "foreign-commitment-proof", "check", &desc, v != truth, &o, json!({"claimed": "q(z)"}));
    }
    // (1d) honest proof for two polynomials at one point, claimed values shifted by (d, -d): both claims are false,
    //      their plain sum is unchanged
    {
        let p2: LPoly<S> = LabeledPolynomial::new("p2".into(), S::gen_poly(&cfg, Shape::Full, deg, rng), None, hiding);
        let p1: LPoly<S> = LabeledPolynomial::new("p1".into(), p.polynomial().clone(), None, hiding);
        let pair = [p1, p2];
        if let Ok(c2) = commit::<S>(&w.ck, &pair, rng.next_u64()) {
            let mut s = sp();
            let mut r = mon_rng(6);
            if let Ok(pf) = attempt(|| PcOf::<S>::open(&w.ck, pair.iter(), c2.comms.iter(), &z, &mut s, c2.states.iter(), Some(&mut r))) {
                let d = FOf::<S>::rand(rng) + FOf::<S>::one();
                let vals = [pair[0].evaluate(&z) + d, pair[1].evaluate(&z) - d];
                let cs: Vec<&LComm<S>> = c2.comms.iter().collect();
                let honest = check::<S>(&w.vk, &cs, &z, &[pair[0].evaluate(&z), pair[1].evaluate(&z)], &pf, &mut sp(), 1);
                if honest == Out::Accept {
                    let o = check::<S>(&w.vk, &cs, &z, &vals, &pf, &mut sp(), 1);
                    judge(ctx, "honest-proof-cancelling-values", "check", &desc, !d.is_zero(), &o, json!({"polynomials": 2}));
                }
            }
        }
    }
    // (2) a single-point batch whose proof list is empty / doubled, for a false value
    {
        let mut qs: QuerySet<PtOf<S>> = QuerySet::new();
        qs.insert(("p".to_string(), ("z".to_string(), z.clone())));
        let mut ev: Evaluations<PtOf<S>, FOf<S>> = Evaluations::new();
        ev.insert(("p".to_string(), z.clone()), truth + FOf::<S>::one());
        let empty: BatchProofOf<S> = Vec::<ProofOf<S>>::new().into();
        let o = batch_check::<S>(&w.vk, &cp.comms, &qs, &ev, &empty, &mut sp(), 3);
        judge(ctx, "batch-proof-list-empty", "batch_check", &desc, true, &o, json!({}));
    }
}

// ---------------------------------------------------------------- KZG family / PST13: component replacement under a false claim

fn marlin_like<S>(ctx: &mut Ctx, rng: &mut ChaCha20Rng)
where
    S: Scheme<P = DensePolynomial<<S as Scheme>::F>>,
    S::PC: PolynomialCommitment<S::F, S::P, Proof = kzg10::Proof<E381>>,
    S: Scheme<F = ark_bls12_381::Fr>,
{
    type Fr = ark_bls12_381::Fr;
    let tx = match gen_tx::<S>(rng, false, 2) {
        Ok(t) => t,
        Err(_) => return ctx.skipped("baseline", "honest pipeline refused (reported under C01/C17)"),
    };
    let idx: Vec<usize> = (0..tx.polys.len()).collect();
    let z = Fr::rand(rng);
    let vals: Vec<Fr> = idx.iter().map(|&i| tx.polys[i].evaluate(&z)).collect();
    let proof = match open::<S>(&tx, &idx, &z, &mut tx.sponge(), 1) {
        Ok(p) => p,
        Err(_) => return ctx.skipped("baseline", "honest open refused"),
    };
    let comms: Vec<&LComm<S>> = tx.c.comms.iter().collect();
    let desc = json!({"tx": tx.json()});
    let mut bad = vals.clone();
    bad[0] += Fr::rand(rng) + Fr::one();
    let g = <E381 as ark_ec::pairing::Pairing>::G1Affine::generator();
    let variants: Vec<(&str, kzg10::Proof<E381>)> = vec![
        ("witness-random", kzg10::Proof { w: g.mul(Fr::rand(rng)).into_affine(), random_v: proof.random_v }),
        ("witness-identity", kzg10::Proof { w: <E381 as ark_ec::pairing::Pairing>::G1Affine::zero(), random_v: proof.random_v }),
        ("blinding-value-random", kzg10::Proof { w: proof.w, random_v: Some(Fr::rand(rng)) }),
        ("blinding-value-dropped", kzg10::Proof { w: proof.w, random_v: None }),
    ];
    for (name, pf) in variants {
        let o = check::<S>(&tx.w.vk, &comms, &z, &bad, &pf, &mut tx.sponge(), 2);
        judge(ctx, &format!("component-replaced[{}]", name), "check", &desc, true, &o, json!({}));
    }
}

fn pst13(ctx: &mut Ctx, rng: &mut ChaCha20Rng) {
    type S = Pst13S<E381>;
    type Fr = ark_bls12_381::Fr;
    let tx = match gen_tx::<S>(rng, false, 2) {
        Ok(t) => t,
        Err(_) => return ctx.skipped("baseline", "honest pipeline refused (reported under C01/C17)"),
    };
    let idx: Vec<usize> = (0..tx.polys.len()).collect();
    let z = <S as Scheme>::gen_point(&tx.w.cfg, rng);
    let vals: Vec<Fr> = idx.iter().map(|&i| tx.polys[i].evaluate(&z)).collect();
    let proof = match open::<S>(&tx, &idx, &z, &mut tx.sponge(), 1) {
        Ok(p) => p,
        Err(_) => return ctx.skipped("baseline", "honest open refused"),
    };
    let comms: Vec<&LComm<S>> = tx.c.comms.iter().collect();
    let desc = json!({"tx": tx.json()});
    let mut bad = vals.clone();
    bad[0] += Fr::rand(rng) + Fr::one();
    let g = <E381 as ark_ec::pairing::Pairing>::G1Affine::generator();
    let mut shorter = proof.w.clone();
    shorter.pop();
    let mut longer = proof.w.clone();
    longer.push(g.mul(Fr::rand(rng)).into_affine());
    let mut rnd = proof.w.clone();
    let k = below(rng, rnd.len());
    rnd[k] = g.mul(Fr::rand(rng)).into_affine();
    let variants: Vec<(&str, marlin_pst13_pc::Proof<E381>)> = vec![
        ("witness-list-shorter", marlin_pst13_pc::Proof { w: shorter, random_v: proof.random_v }),
        ("witness-list-longer", marlin_pst13_pc::Proof { w: longer, random_v: proof.random_v }),
        ("witness-list-empty", marlin_pst13_pc::Proof { w: vec![], random_v: proof.random_v }),
        ("component-replaced[witness-random]", marlin_pst13_pc::Proof { w: rnd, random_v: proof.random_v }),
        ("component-replaced[blinding-value-random]", marlin_pst13_pc::Proof { w: proof.w.clone(), random_v: Some(Fr::rand(rng)) }),
    ];
    for (name, pf) in variants {
        let o = check::<S>(&tx.w.vk, &comms, &z, &bad, &pf, &mut tx.sponge(), 2);
        judge(ctx, name, "check", &desc, true, &o, json!({}));
    }
    // the library prover run on q = p with two variables exchanged (same commitment state), against commitment(p)
    let nv = tx.w.cfg.num_vars.unwrap();
    if nv >= 2 {
        use ark_poly::multivariate::{SparsePolynomial, SparseTerm, Term};
        use ark_poly::DenseMVPolynomial;
        let (i, mut j) = (below(rng, nv), below(rng, nv));
        if i == j {
            j = (i + 1) % nv;
        }
        let p0 = tx.polys[0].polynomial();
        let terms: Vec<(Fr, SparseTerm)> = p0
            .terms()
            .iter()
            .map(|(cf, t)| {
                let vs: Vec<(usize, usize)> = t.vars().iter().zip(t.powers()).map(|(v, pw)| (if *v == i { j } else if *v == j { i } else { *v }, pw)).collect();
                (*cf, SparseTerm::new(vs))
            })
            .collect();
        let q = SparsePolynomial::from_coefficients_vec(nv, terms);
        let lq: LPoly<S> = ark_poly_commit::LabeledPolynomial::new(tx.polys[0].label().clone(), q.clone(), None, tx.specs[0].hiding);
        let vq = lq.evaluate(&z);
        let mut r = crate::probe::mon_rng(5);
        let res = crate::rt::attempt(|| PcOf::<S>::open(&tx.w.ck, [&lq], [&tx.c.comms[0]], &z, &mut tx.sponge(), [&tx.c.states[0]], Some(&mut r)));
        match res {
            Err(_) => ctx.skipped("variables-exchanged-polynomial", "library prover refuses the mismatched inputs"),
            Ok(pf) => {
                let o = check::<S>(&tx.w.vk, &[&tx.c.comms[0]], &z, &[vq], &pf, &mut tx.sponge(), 2);
                judge(ctx, "variables-exchanged-polynomial", "check", &desc, vq != vals[0] && &q != p0, &o, json!({"exchanged": [i, j]}));
            }
        }
    }
}

// ---------------------------------------------------------------- Hyrax

fn hyrax(ctx: &mut Ctx, rng: &mut ChaCha20Rng) {
    type S = HyraxS;
    let mut cfg = S::gen_cfg(rng, false);
    if cfg.num_vars == Some(0) {
        cfg.num_vars = Some(2);
    }
    let w = match make_world::<S>(&cfg, rng) {
        Ok(w) => w,
        Err(_) => return ctx.skipped("baseline", "setup refused"),
    };
    let polys: Vec<LPoly<S>> = (0..2).map(|i| LabeledPolynomial::new(format!("p{}", i), S::gen_poly(&cfg, Shape::Full, 0, rng), None, None)).collect();
    let c = match commit::<S>(&w.ck, &polys, rng.next_u64()) {
        Ok(c) => c,
        Err(_) => return ctx.skipped("baseline", "commit refused"),
    };
    let z = S::gen_point(&cfg, rng);
    let vals: Vec<JFr> = polys.iter().map(|p| p.evaluate(&z)).collect();
    let tx = Tx::<S> { w, specs: vec![], polys, c, pre: b"c03h".to_vec(), commit_seed: 0 };
    let proof = match open::<S>(&tx, &[0, 1], &z, &mut tx.sponge(), 1) {
        Ok(p) => p,
        Err(_) => return ctx.skipped("baseline", "honest open refused"),
    };
    let comms: Vec<&LComm<S>> = tx.c.comms.iter().collect();
    let desc = json!({"nv": cfg.num_vars});
    // wrong claims on BOTH polynomials, and additionally a foreign commitment in second position:
    // whatever is not covered by a proof element must not be accepted
    let bad: Vec<JFr> = vals.iter().map(|v| *v + JFr::one()).collect();
    let o = check::<S>(&tx.w.vk, &comms, &z, &bad, &vec![], &mut tx.sponge(), 2);
    judge(ctx, "inner-proof-list-empty", "check", &desc, true, &o, json!({"commitments": 2, "proofs": 0}));
    let o = check::<S>(&tx.w.vk, &comms, &z, &bad, &proof[..1].to_vec(), &mut tx.sponge(), 2);
    judge(ctx, "inner-proof-list-truncated", "check", &desc, true, &o, json!({"commitments": 2, "proofs": 1}));
    // z stretched / shortened, com_eval replaced by a fresh commitment to the claimed value
    let mut p2 = proof.clone();
    p2[0].z.push(JFr::rand(rng));
    let o = check::<S>(&tx.w.vk, &comms, &z, &bad, &p2, &mut tx.sponge(), 2);
    judge(ctx, "z-stretched", "check", &desc, true, &o, json!({}));
    let mut p3 = proof.clone();
    p3[0].z.pop();
    let o = check::<S>(&tx.w.vk, &comms, &z, &bad, &p3, &mut tx.sponge(), 2);
    judge(ctx, "z-shortened", "check", &desc, true, &o, json!({}));
    let mut p4 = proof.clone();
    p4[0].com_eval = (tx.w.vk.com_key[0].mul(bad[0]) + tx.w.vk.h.mul(JFr::rand(rng))).into_affine();
    let o = check::<S>(&tx.w.vk, &comms, &z, &bad, &p4, &mut tx.sponge(), 2);
    judge(ctx, "com-eval-replaced", "check", &desc, true, &o, json!({}));
    // the two proof elements exchanged between the two polynomials (true values: the transcript order must matter)
    let mut p6 = proof.clone();
    p6.swap(0, 1);
    let distinct_polys = tx.polys[0].polynomial() != tx.polys[1].polynomial();
    let o = check::<S>(&tx.w.vk, &comms, &z, &bad, &p6, &mut tx.sponge(), 2);
    judge(ctx, "proof-elements-swapped", "check", &desc, distinct_polys, &o, json!({}));
    let mut p5 = proof.clone();
    p5[0].z_d += JFr::one();
    let o = check::<S>(&tx.w.vk, &comms, &z, &bad, &p5, &mut tx.sponge(), 2);
    judge(ctx, "component-replaced[z_d]", "check", &desc, true, &o, json!({}));
}

// ---------------------------------------------------------------- IPA: round count and identity-padding attack

fn ipa(ctx: &mut Ctx, rng: &mut ChaCha20Rng) {
    type S = IpaS;
    let max_degree = [1usize, 3, 7, 15][below(rng, 4)];
    let cfg = Cfg { max_degree, num_vars: None, supported_degree: max_degree, supported_hiding: 1, enforced: None };
    let w = match make_world::<S>(&cfg, rng) {
        Ok(w) => w,
        Err(_) => return ctx.skipped("baseline", "setup refused"),
    };
    let d = max_degree;
    let p = uni_poly::<JFr>(Shape::Full, range(rng, 1, d), rng);
    let lp: LPoly<S> = LabeledPolynomial::new("p".into(), p.clone(), None, None);
    let c = match commit::<S>(&w.ck, std::slice::from_ref(&lp), 1) {
        Ok(c) => c,
        Err(_) => return ctx.skipped("baseline", "commit refused"),
    };
    let z = loop {
        let z = JFr::rand(rng);
        if !z.is_zero() {
            break z;
        }
    };
    let truth = p.evaluate(&z);
    let vfalse = truth + JFr::rand(rng) + JFr::one();
    let tx = Tx::<S> { w, specs: vec![], polys: vec![lp], c, pre: b"c03i".to_vec(), commit_seed: 0 };
    let desc = json!({"supported_degree": d, "degree": p.degree()});
    let honest = match open::<S>(&tx, &[0], &z, &mut tx.sponge(), 1) {
        Ok(p) => p,
        Err(_) => return ctx.skipped("baseline", "honest open refused"),
    };
    let comms: Vec<&LComm<S>> = tx.c.comms.iter().collect();
    let both = |ctx: &mut Ctx, class: &str, pf: &ipa_pc::Proof<JubJub>, value: JFr, extra: Value| {
        let o = check::<S>(&tx.w.vk, &comms, &z, &[value], pf, &mut tx.sponge(), 2);
        judge(ctx, class, "check", &desc, value != truth, &o, extra.clone());
        let mut qs: QuerySet<JFr> = QuerySet::new();
        qs.insert(("p".to_string(), ("z".to_string(), z)));
        let mut ev: Evaluations<JFr, JFr> = Evaluations::new();
        ev.insert(("p".to_string(), z), value);
        let o = batch_check::<S>(&tx.w.vk, &tx.c.comms, &qs, &ev, &vec![pf.clone()], &mut tx.sponge(), 2);
        judge(ctx, class, "batch_check", &desc, value != truth, &o, extra);
    };
    // round-count faults on the honest proof with a false value
    let g = JubJub::generator();
    let mut fewer = honest.clone();
    fewer.l_vec.pop();
    fewer.r_vec.pop();
    both(ctx, "rounds-missing", &fewer, vfalse, json!({"rounds": fewer.l_vec.len()}));
    let mut more = honest.clone();
    more.l_vec.push(g.mul(JFr::rand(rng)).into_affine());
    more.r_vec.push(g.mul(JFr::rand(rng)).into_affine());
    both(ctx, "rounds-extra-random", &more, vfalse, json!({"rounds": more.l_vec.len()}));
    let mut uneven = honest.clone();
    uneven.l_vec.push(g.mul(JFr::rand(rng)).into_affine());
    both(ctx, "rounds-uneven", &uneven, vfalse, json!({}));
    let mut comp = honest.clone();
    comp.c += JFr::one();
    both(ctx, "component-replaced[c]", &comp, vfalse, json!({}));
    let mut comp = honest.clone();
    comp.final_comm_key = g.mul(JFr::rand(rng)).into_affine();
    both(ctx, "component-replaced[final_comm_key]", &comp, vfalse, json!({}));
    // identity-padding attack: own prover on the key padded with identity elements to 2^(log d + extra)
    for extra in 1..=2usize {
        let n = (d + 1) << extra;
        let mut key: Vec<<JubJub as AffineRepr>::Group> = tx.w.vk.comm_key.iter().map(|g| g.into_group()).collect();
        key.resize(n, <JubJub as AffineRepr>::Group::zero());
        // combination challenge: first element squeezed from the verifier's sponge
        let mut spv = tx.sponge();
        let xi: JFr = ark_crypto_primitives::sponge::CryptographicSponge::squeeze_field_elements_with_sizes(&mut spv, &[ark_poly_commit::CHALLENGE_SIZE])[0];
        let mut a: Vec<JFr> = p.coeffs().iter().map(|c| *c * xi).collect();
        a.resize(n, JFr::zero());
        // make the extended polynomial evaluate to xi * vfalse at z
        a[d + 1] = xi * (vfalse - truth) * z.pow([(d + 1) as u64]).inverse().unwrap();
        let comm = tx.c.comms[0].commitment().comm.mul(xi).into_affine();
        let v = xi * vfalse;
        let fp = ipa_ref::fold_prove(&key, &a, z, &comm, &v, &tx.w.vk.h);
        let pf = ipa_pc::Proof::<JubJub> { l_vec: fp.l_vec, r_vec: fp.r_vec, final_comm_key: fp.final_key, c: fp.c, hiding_comm: None, rand: None };
        both(ctx, "rounds-extra-identity-padding", &pf, vfalse, json!({"extra_rounds": extra}));
    }
    // sanity of the harness prover: with the true value and no padding it must be accepted
    {
        let n = d + 1;
        let key: Vec<<JubJub as AffineRepr>::Group> = tx.w.vk.comm_key.iter().map(|g| g.into_group()).collect();
        let mut spv = tx.sponge();
        let xi: JFr = ark_crypto_primitives::sponge::CryptographicSponge::squeeze_field_elements_with_sizes(&mut spv, &[ark_poly_commit::CHALLENGE_SIZE])[0];
        let mut a: Vec<JFr> = p.coeffs().iter().map(|c| *c * xi).collect();
        a.resize(n, JFr::zero());
        let comm = tx.c.comms[0].commitment().comm.mul(xi).into_affine();
        let fp = ipa_ref::fold_prove(&key, &a, z, &comm, &(xi * truth), &tx.w.vk.h);
        let pf = ipa_pc::Proof::<JubJub> { l_vec: fp.l_vec, r_vec: fp.r_vec, final_comm_key: fp.final_key, c: fp.c, hiding_comm: None, rand: None };
        let o = check::<S>(&tx.w.vk, &comms, &z, &[truth], &pf, &mut tx.sponge(), 2);
        ctx.check(o == Out::Accept, "harness-prover-sanity", "check", desc.clone(), || json!({"outcome": o.json()}));
    }
}

/// Honest batch proof over three or four point labels, with a coordinated pair of false values whose weighted
/// errors cancel if two points receive the same batching randomizer (the weights are the public opening challenges).
fn batch_cancelling<S: Scheme>(ctx: &mut Ctx, rng: &mut ChaCha20Rng) {
    let tx = match gen_tx::<S>(rng, false, 3) {
        Ok(t) => t,
        Err(_) => return ctx.skipped("baseline", "honest pipeline refused (reported under C01/C17)"),
    };
    let q = gen_queries::<S>(&tx.w.cfg, &tx.polys, range(rng, 3, 4), rng);
    let ident: Vec<usize> = (0..tx.polys.len()).collect();
    let proof = match batch_open::<S>(&tx, &ident, &q.qs, &mut tx.sponge(), rng.next_u64()) {
        Ok(p) => p,
        Err(_) => return ctx.skipped("baseline", "honest batch_open refused (reported under C01)"),
    };
    let proofs: Vec<ProofOf<S>> = proof.clone().into();
    let txj = json!({"tx": tx.json(), "queries": q.json()});
    super::c05::challenge_aware_across_points::<S>(ctx, &tx, &q, &proof, &proofs, &tx.c.comms, &txj, rng, "honest-proof-cancelling-values[across-points]", false);
}

pub fn run(ctx: &mut Ctx) {
    crate::schemes::set_custom_params(true);
    for_each_scheme!(ctx, S, {
        let n = ctx.n(100, 2000) / <S as Scheme>::WEIGHT.max(1);
        ctx.run_cases(<S as Scheme>::NAME, n.max(4), |ctx, _i, rng| generic_case::<S>(ctx, rng));
    });
    {
        let n = ctx.n(40, 800);
        ctx.run_cases("marlin/batch", n / 2, |ctx, _i, rng| batch_cancelling::<MarlinS<E381>>(ctx, rng));
        ctx.run_cases("sonic/batch", n / 3, |ctx, _i, rng| batch_cancelling::<SonicS<E381>>(ctx, rng));
        ctx.run_cases("pst13/batch", n / 4, |ctx, _i, rng| batch_cancelling::<Pst13S<E381>>(ctx, rng));
        ctx.run_cases("ipa/batch", n, |ctx, _i, rng| batch_cancelling::<IpaS>(ctx, rng));
    }
    let n = ctx.n(80, 1600);
    ctx.run_cases("marlin/components", n / 2, |ctx, _i, rng| marlin_like::<MarlinS<E381>>(ctx, rng));
    ctx.run_cases("sonic/components", n / 2, |ctx, _i, rng| marlin_like::<SonicS<E381>>(ctx, rng));
    ctx.run_cases("pst13/shape", n / 4, |ctx, _i, rng| pst13(ctx, rng));
    ctx.run_cases("hyrax/shape", n, |ctx, _i, rng| hyrax(ctx, rng));
    ctx.run_cases("ipa/rounds", n, |ctx, _i, rng| ipa(ctx, rng));
    ctx.run_cases("ligero-uni/crafted", n, |ctx, _i, rng| super::c03_lin::case::<UniLigeroS, UniLigeroEnc>(ctx, rng));
    ctx.run_cases("ligero-uni/window-forgery", if ctx.is_thorough() { 24 } else { 8 }, |ctx, _i, rng| super::c03_lin::window_forgery(ctx, rng));
    ctx.run_cases("ligero-ml/crafted", n, |ctx, _i, rng| super::c03_lin::case::<MlLigeroS, MlLigeroEnc>(ctx, rng));
    ctx.run_cases("brakedown/crafted", n / 2, |ctx, _i, rng| super::c03_lin::case::<BrakedownS, BrakedownEnc>(ctx, rng));
}
