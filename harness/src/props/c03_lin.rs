//! C03, linear-code schemes: crafted proofs built through the mirror structs.
use crate::mirror::{convert, MLinCommitment, MLinProof, MLinState, MProofSingle};
use crate::probe::Sp;
use crate::rt::{attempt, Ctx, Out};
use crate::scen::*;
use crate::schemes::*;
use ark_crypto_primitives::merkle_tree::MerkleTree;
use ark_crypto_primitives::sponge::CryptographicSponge;
use ark_ff::{Field, One, UniformRand, Zero};
use ark_poly::Polynomial;
use ark_poly_commit::linear_codes::{verif_calculate_t, LinCodeParametersInfo, LinearEncode};
use ark_poly_commit::{LabeledPolynomial, PolynomialCommitment};
use ark_serialize::CanonicalSerialize;
use rand_chacha::ChaCha20Rng;
use rand_core::RngCore;
use serde_json::{json, Value};

type F = LFr;

fn row_mul(mat: &[Vec<F>], v: &[F]) -> Vec<F> {
    let m = mat[0].len();
    (0..m).map(|c| mat.iter().zip(v).map(|(row, x)| row[c] * x).sum()).collect()
}

/// Solve A x = w over F (A square, given by rows). None if singular.
fn solve(mut a: Vec<Vec<F>>, mut w: Vec<F>) -> Option<Vec<F>> {
    let n = w.len();
    for col in 0..n {
        let piv = (col..n).find(|&r| !a[r][col].is_zero())?;
        a.swap(col, piv);
        w.swap(col, piv);
        let inv = a[col][col].inverse().unwrap();
        for j in col..n {
            a[col][j] *= inv;
        }
        w[col] *= inv;
        for r in 0..n {
            if r != col && !a[r][col].is_zero() {
                let f = a[r][col];
                for j in col..n {
                    let t = a[col][j] * f;
                    a[r][j] -= t;
                }
                let t = w[col] * f;
                w[r] -= t;
            }
        }
    }
    Some(w)
}

pub struct Ctxt<'a, S: Scheme> {
    pub ck: &'a CkOf<S>,
    pub cm: MLinCommitment,
    pub st: MLinState<F>,
    pub tree: MerkleTree<MtParams>,
    pub z: PtOf<S>,
    pub pre: Vec<u8>,
}

pub fn tree_of(leaves: &[Vec<u8>]) -> MerkleTree<MtParams> {
    let mut l = leaves.to_vec();
    l.resize(l.len().next_power_of_two(), Vec::new());
    MerkleTree::<MtParams>::new(&(), &(), l).expect("merkle tree")
}

/// Simulate the verifier's transcript for (root, optional wf, point, v) and return (r, indices).
pub fn transcript<S, L>(c: &Ctxt<S>, wf: Option<&Vec<F>>, v: &Vec<F>, want_r_only: bool) -> (Option<Vec<F>>, Vec<usize>)
where
    S: Scheme<F = F>,
    L: LinearEncode<F, MtParams, POf<S>, ColHasher<F>, LinCodePCParams = CkOf<S>>,
    CkOf<S>: LinCodeParametersInfo<MtParams, ColHasher<F>>,
{
    let mut sp: Sp<F> = crate::probe::sponge::<F>(&c.pre);
    let mut rb = Vec::new();
    c.cm.root.serialize_compressed(&mut rb).unwrap();
    sp.absorb(&rb);
    let mut r = None;
    if c.ck.check_well_formedness() {
        r = Some(sp.squeeze_field_elements::<F>(c.cm.metadata.n_rows));
        if want_r_only {
            return (r, vec![]);
        }
        if let Some(wf) = wf {
            sp.absorb(wf);
        }
    } else if want_r_only {
        return (None, vec![]);
    }
    let pv = L::point_to_vec(c.z.clone());
    sp.absorb(&pv);
    sp.absorb(v);
    let n = c.cm.metadata.n_ext_cols;
    let t = verif_calculate_t::<F>(c.ck.sec_param(), c.ck.distance(), n).unwrap_or(0);
    let nb = ((usize::BITS - n.leading_zeros()) as usize + 7) / 8;
    let mut idx = Vec::new();
    for _ in 0..t {
        let b = sp.squeeze_bytes(nb);
        sp.absorb(&b);
        idx.push(b.iter().fold(0usize, |acc, x| (acc << 8) + *x as usize) % n);
    }
    (r, idx)
}

pub fn cols_paths(st: &MLinState<F>, tree: &MerkleTree<MtParams>, idx: &[usize]) -> (Vec<Vec<F>>, Vec<ark_crypto_primitives::merkle_tree::Path<MtParams>>) {
    let cols: Vec<Vec<F>> = idx.iter().map(|&j| st.ext_mat.entries.iter().map(|row| row[j]).collect()).collect();
    let paths = idx.iter().map(|&j| tree.generate_proof(j).expect("path")).collect();
    (cols, paths)
}

fn to_proof<S: Scheme>(p: MLinProof<F>) -> Result<ProofOf<S>, String> {
    let v: Vec<Vec<MLinProof<F>>> = vec![vec![p]];
    let bp: BatchProofOf<S> = convert(&v)?;
    let mut ps: Vec<ProofOf<S>> = bp.into();
    Ok(ps.remove(0))
}

fn run_check<S: Scheme>(vk: &VkOf<S>, comm: &LComm<S>, c_pre: &[u8], z: &PtOf<S>, value: F, proof: &ProofOf<S>) -> Out
where
    S: Scheme<F = F>,
{
    let mut sp = crate::probe::sponge::<F>(c_pre);
    check::<S>(vk, &[comm], z, &[value], proof, &mut sp, 1)
}

/// Adaptive forgery against the column spot check (univariate Ligero, default parameters, ~2100..2600 coefficients so
/// that the codeword has 2048 positions but only t = 191 are opened). The forged opening is consistent with
/// q = p + e where e vanishes on the first 256 points of the Reed-Solomon domain, so the encoded rows of p and q
/// agree on positions 0..255 and differ almost everywhere else. The positions are NOT taken from the harness's model of
/// the verifier: the library verifier is run once on a draft proof over a recording sponge and the positions are
/// read off its squeezed bytes (Fiat-Shamir challenges are public), then the final proof answers exactly those
/// positions with p's authentic columns and paths. A verifier that samples positions over the whole codeword rejects.
pub fn window_forgery(ctx: &mut Ctx, rng: &mut ChaCha20Rng) {
    type S = UniLigeroS;
    type L = UniLigeroEnc;
    let deg = range(rng, 2110, 2600);
    let cfg = Cfg { max_degree: deg, num_vars: None, supported_degree: deg, supported_hiding: 0, enforced: None };
    let pp = match attempt(|| PcOf::<S>::setup(cfg.max_degree, None, rng)) {
        Ok(p) => p,
        Err(_) => return ctx.skipped("baseline", "setup refused"),
    };
    let w = World::<S> { cfg: cfg.clone(), pp: pp.clone(), ck: pp.clone(), vk: pp };
    let p: LPoly<S> = LabeledPolynomial::new("p".into(), S::gen_poly(&cfg, Shape::Full, deg, rng), None, None);
    let cp = match commit::<S>(&w.ck, std::slice::from_ref(&p), 2) {
        Ok(c) => c,
        Err(_) => return ctx.skipped("baseline", "commit refused"),
    };
    let (cm, st): (MLinCommitment, MLinState<F>) = match (convert(cp.comms[0].commitment()), convert(&cp.states[0])) {
        (Ok(a), Ok(b)) => (a, b),
        _ => return ctx.skipped("baseline", "mirror decode failed"),
    };
    let (n_rows, n_cols, n_ext) = (cm.metadata.n_rows, cm.metadata.n_cols, cm.metadata.n_ext_cols);
    let t = verif_calculate_t::<F>(w.ck.sec_param(), w.ck.distance(), n_ext).unwrap_or(0);
    let desc = json!({"degree": deg, "n_rows": n_rows, "n_cols": n_cols, "n_ext_cols": n_ext, "t": t});
    if n_cols <= 257 || !n_ext.is_power_of_two() || t >= n_ext {
        return ctx.skipped("positions-outside-a-window-never-opened", "shape leaves no room for the construction");
    }
    let z = S::gen_point(&cfg, rng);
    let truth = p.evaluate(&z);
    let pre = b"c03-window".to_vec();
    let c = Ctxt::<S> { ck: &w.ck, cm: cm.clone(), tree: tree_of(&st.leaves), st, z: z.clone(), pre: pre.clone() };
    // e(X) = prod_{j<256} (X - w^j)
    let omega = <F as ark_ff::FftField>::get_root_of_unity(n_ext as u64).unwrap();
    let mut e = vec![F::one()];
    let mut x = F::one();
    for _ in 0..256 {
        let mut nxt = vec![F::zero(); e.len() + 1];
        for (i, cf) in e.iter().enumerate() {
            nxt[i + 1] += *cf;
            nxt[i] -= *cf * x;
        }
        e = nxt;
        x *= omega;
    }
    let mut mq = c.st.mat.entries.clone();
    let row = below(rng, n_rows);
    let scale = F::rand(rng) + F::one();
    for (i, cf) in e.iter().enumerate() {
        mq[row][i] += scale * cf;
    }
    let (a, b) = L::tensor(&z, n_cols, n_rows);
    let vq = row_mul(&mq, &b);
    let claim = crate::oracle::inner(&vq, &a);
    let (r, _) = transcript::<S, L>(&c, None, &vq, true);
    let wfq = r.as_ref().map(|r| row_mul(&mq, r));
    // draft: positions from the harness model (any t positions of the right shape will do)
    let (_, idx0) = transcript::<S, L>(&c, wfq.as_ref(), &vq, false);
    let (cols0, paths0) = cols_paths(&c.st, &c.tree, &idx0);
    let draft = match to_proof::<S>(MLinProof { opening: MProofSingle { paths: paths0, v: vq.clone(), columns: cols0 }, well_formedness: wfq.clone() }) {
        Ok(p) => p,
        Err(_) => return ctx.skipped("positions-outside-a-window-never-opened", "draft proof could not be encoded"),
    };
    let mut sp = crate::probe::sponge::<F>(&pre);
    let _ = check::<S>(&w.vk, &[&cp.comms[0]], &z, &[claim], &draft, &mut sp, 2);
    let observed: Vec<usize> = sp.squeezed_bytes().iter().map(|bs| bs.iter().fold(0usize, |acc, x| (acc << 8) + *x as usize) % n_ext).collect();
    if observed.len() != t {
        return ctx.skipped("positions-outside-a-window-never-opened", "the verifier did not reach its position sampling on the draft");
    }
    ctx.count(if observed.iter().all(|j| *j < 256) { "observed-positions:all-below-256" } else { "observed-positions:spread-over-the-codeword" }, 1);
    let (cols, paths) = cols_paths(&c.st, &c.tree, &observed);
    let pf = match to_proof::<S>(MLinProof { opening: MProofSingle { paths, v: vq, columns: cols }, well_formedness: wfq }) {
        Ok(p) => p,
        Err(_) => return ctx.skipped("positions-outside-a-window-never-opened", "proof could not be encoded"),
    };
    if claim == truth {
        return ctx.skipped("positions-outside-a-window-never-opened", "claimed value equals the true evaluation");
    }
    let o = run_check::<S>(&w.vk, &cp.comms[0], &pre, &z, claim, &pf);
    ctx.check(!o.is_accept(), "positions-outside-a-window-never-opened", "check", desc, || json!({"outcome": o.json(), "max_observed_position": observed.iter().max()}));
}

pub fn case<S, L>(ctx: &mut Ctx, rng: &mut ChaCha20Rng)
where
    S: Scheme<F = F>,
    S::PC: PolynomialCommitment<F, POf<S>, VerifierKey = CkOf<S>>,
    L: LinearEncode<F, MtParams, POf<S>, ColHasher<F>, LinCodePCParams = CkOf<S>>,
    CkOf<S>: LinCodeParametersInfo<MtParams, ColHasher<F>> + Clone,
{
    // small sizes: the stretched system is n_ext x n_ext
    let cfg = if S::KIND == Kind::Univariate {
        let d = range(rng, 3, 60);
        Cfg { max_degree: d, num_vars: None, supported_degree: d, supported_hiding: 0, enforced: None }
    } else {
        Cfg { max_degree: 1, num_vars: Some(range(rng, 2, 6)), supported_degree: 1, supported_hiding: 0, enforced: None }
    };
    let w = match make_world::<S>(&cfg, rng) {
        Ok(w) => w,
        Err(_) => return ctx.skipped("baseline", "setup refused"),
    };
    let deg = if S::KIND == Kind::Univariate { cfg.supported_degree } else { 0 };
    let p: LPoly<S> = LabeledPolynomial::new("p".into(), S::gen_poly(&cfg, Shape::Full, deg, rng), None, None);
    let q: LPoly<S> = LabeledPolynomial::new("p".into(), S::gen_poly(&cfg, Shape::Full, deg, rng), None, None);
    let (cp, cq) = match (commit::<S>(&w.ck, std::slice::from_ref(&p), 1), commit::<S>(&w.ck, std::slice::from_ref(&q), 1)) {
        (Ok(a), Ok(b)) => (a, b),
        _ => return ctx.skipped("baseline", "commit refused"),
    };
    let z = S::gen_point(&cfg, rng);
    let truth = p.evaluate(&z);
    let mut pre = vec![0u8; below(rng, 20)];
    rng.fill_bytes(&mut pre);
    let (cm, st, stq): (MLinCommitment, MLinState<F>, MLinState<F>) = match (convert(cp.comms[0].commitment()), convert(&cp.states[0]), convert(&cq.states[0])) {
        (Ok(a), Ok(b), Ok(c)) => (a, b, c),
        _ => return ctx.violated("mirror", "commit", cfg.json(), json!({"error": "mirror decode failed"})),
    };
    let c = Ctxt::<S> { ck: &w.ck, cm: cm.clone(), tree: tree_of(&st.leaves), st, z: z.clone(), pre: pre.clone() };
    let desc = json!({"cfg": cfg.json(), "n_rows": cm.metadata.n_rows, "n_cols": cm.metadata.n_cols, "n_ext_cols": cm.metadata.n_ext_cols, "well_formedness": w.ck.check_well_formedness()});
    let (a, b) = L::tensor(&z, cm.metadata.n_cols, cm.metadata.n_rows);
    let v_honest = row_mul(&c.st.mat.entries, &b);
    let (r, _) = transcript::<S, L>(&c, None, &v_honest, true);
    let wf_honest: Option<Vec<F>> = r.as_ref().map(|r| row_mul(&c.st.mat.entries, r));
    let judge = |ctx: &mut Ctx, class: &str, value: F, proof: Result<ProofOf<S>, String>, extra: Value| {
        let mut d = desc.clone();
        d["attack"] = extra;
        if value == truth {
            return ctx.skipped(class, "claimed value equals the true evaluation");
        }
        match proof {
            Err(e) => ctx.skipped(class, &format!("attack proof could not be encoded: {}", crate::rt::clip(&e, 60))),
            Ok(pf) => {
                let o = run_check::<S>(&w.vk, &cp.comms[0], &pre, &z, value, &pf);
                ctx.count(&format!("outcome:{}:{}", class, o.tag()), 1);
                ctx.check(!o.is_accept(), class, "check", d, || json!({"outcome": o.json(), "claimed": crate::ju::fe(&value), "truth": crate::ju::fe(&truth)}));
            }
        }
    };
    // sanity: the mirrored honest proof is accepted for the true value (the harness's transcript model is right)
    {
        let (_, idx) = transcript::<S, L>(&c, wf_honest.as_ref(), &v_honest, false);
        let (cols, paths) = cols_paths(&c.st, &c.tree, &idx);
        let pf = to_proof::<S>(MLinProof { opening: MProofSingle { paths, v: v_honest.clone(), columns: cols }, well_formedness: wf_honest.clone() });
        match pf {
            Ok(pf) => {
                let o = run_check::<S>(&w.vk, &cp.comms[0], &pre, &z, truth, &pf);
                if o != Out::Accept {
                    return ctx.skipped("baseline", "harness-built honest proof not accepted (transcript model mismatch)");
                }
                ctx.held("harness-built-honest-proof-accepted", desc.clone());
            }
            Err(_) => return ctx.skipped("baseline", "mirror encode failed"),
        }
    }
    // (1) opening vector altered, everything else re-derived honestly for the altered transcript
    {
        let mut v = v_honest.clone();
        let i = below(rng, v.len());
        v[i] += F::rand(rng) + F::one();
        let claim = crate::oracle::inner(&v, &a);
        let (_, idx) = transcript::<S, L>(&c, wf_honest.as_ref(), &v, false);
        let (cols, paths) = cols_paths(&c.st, &c.tree, &idx);
        let pf = to_proof::<S>(MLinProof { opening: MProofSingle { paths, v, columns: cols }, well_formedness: wf_honest.clone() });
        judge(ctx, "opening-vector-altered", claim, pf, json!({"position": i}));
    }
    // (1b) errors in the opening vector and in the well-formedness vector that cancel in the SUM of the two column
    //      tests (the challenge r is known before either vector is sent); columns and paths honest for the positions
    //      the altered transcript selects
    if let Some(wf) = &wf_honest {
        let delta: Vec<F> = (0..v_honest.len()).map(|_| F::rand(rng)).collect();
        let v: Vec<F> = v_honest.iter().zip(&delta).map(|(x, d)| *x + d).collect();
        let wf2: Vec<F> = wf.iter().zip(&delta).map(|(x, d)| *x - d).collect();
        let claim = crate::oracle::inner(&v, &a);
        let (_, idx) = transcript::<S, L>(&c, Some(&wf2), &v, false);
        let (cols, paths) = cols_paths(&c.st, &c.tree, &idx);
        let pf = to_proof::<S>(MLinProof { opening: MProofSingle { paths, v, columns: cols }, well_formedness: Some(wf2) });
        judge(ctx, "opening-and-well-formedness-vectors-cancelling", claim, pf, json!({}));
    }
    // (2) proof consistent with another polynomial's matrix, against commitment(p): columns of q with q's paths,
    //     and columns of q with p's (honest) paths
    {
        let vq = row_mul(&stq.mat.entries, &b);
        let claim = crate::oracle::inner(&vq, &a);
        let wfq = r.as_ref().map(|r| row_mul(&stq.mat.entries, r));
        let (_, idx) = transcript::<S, L>(&c, wfq.as_ref(), &vq, false);
        let treeq = tree_of(&stq.leaves);
        let (colsq, pathsq) = cols_paths(&stq, &treeq, &idx);
        let (_, pathsp) = cols_paths(&c.st, &c.tree, &idx);
        let pf = to_proof::<S>(MLinProof { opening: MProofSingle { paths: pathsq, v: vq.clone(), columns: colsq.clone() }, well_formedness: wfq.clone() });
        judge(ctx, "foreign-matrix-foreign-paths", claim, pf, json!({}));
        let pf = to_proof::<S>(MLinProof { opening: MProofSingle { paths: pathsp.clone(), v: vq.clone(), columns: colsq.clone() }, well_formedness: wfq.clone() });
        judge(ctx, "foreign-matrix-honest-paths", claim, pf, json!({}));
        // sibling hashes altered on top
        let mut paths2 = pathsp;
        if let Some(p0) = paths2.first_mut() {
            p0.leaf_sibling_hash = vec![7u8; 32];
        }
        let pf = to_proof::<S>(MLinProof { opening: MProofSingle { paths: paths2, v: vq, columns: colsq }, well_formedness: wfq });
        judge(ctx, "foreign-matrix-altered-sibling", claim, pf, json!({}));
    }
    // (3) stretched opening vector (and well-formedness vector): E'(v')[j] = E(v)[j] for all j < n_ext
    {
        let n_ext = cm.metadata.n_ext_cols;
        let m = cm.metadata.n_cols;
        if n_ext > 256 || n_ext <= m {
            ctx.skipped("stretched-opening-vector", "codeword too long for the dense solver");
        } else {
            let kk = n_ext; // unknowns
            let cols: Result<Vec<Vec<F>>, Out> = (0..kk)
                .map(|i| {
                    let mut e = vec![F::zero(); kk];
                    e[i] = F::one();
                    attempt(|| L::encode(&e, &w.ck))
                })
                .collect();
            match cols {
                Err(o) => {
                    ctx.count("stretched-encode-refused", 1);
                    let mut d = desc.clone();
                    d["attack"] = json!({"stretch_to": kk});
                    ctx.held("stretched-opening-vector", json!({"desc": d, "refused_by": "encode", "outcome": o.json()}));
                }
                Ok(cols) => {
                    let amat: Vec<Vec<F>> = (0..n_ext).map(|j| (0..kk).map(|i| cols[i][j]).collect()).collect();
                    let target_v = attempt(|| L::encode(&v_honest, &w.ck)).ok();
                    let target_wf = wf_honest.as_ref().and_then(|wf| attempt(|| L::encode(wf, &w.ck)).ok());
                    let sv = target_v.and_then(|t| solve(amat.clone(), t));
                    let swf = match (&wf_honest, target_wf) {
                        (Some(_), Some(t)) => solve(amat.clone(), t).map(Some),
                        (None, _) => Some(None),
                        _ => None,
                    };
                    match (sv, swf) {
                        (Some(v2), Some(wf2)) => {
                            let claim = crate::oracle::inner(&v2[..m], &a);
                            let (_, idx) = transcript::<S, L>(&c, wf2.as_ref(), &v2, false);
                            let (cs, ps) = cols_paths(&c.st, &c.tree, &idx);
                            let pf = to_proof::<S>(MLinProof { opening: MProofSingle { paths: ps, v: v2, columns: cs }, well_formedness: wf2 });
                            judge(ctx, "stretched-opening-vector", claim, pf, json!({"stretch_to": kk, "n_cols": m}));
                        }
                        _ => ctx.skipped("stretched-opening-vector", "linear system singular"),
                    }
                }
            }
        }
    }
    // (3b) rotated-codeword forgery (Reed-Solomon schemes): scaling matrix column c by omega^(s*c) rotates every
    //      encoded row by s positions, so q's encoded matrix consists of p's columns at shifted positions. A proof
    //      consistent with q whose columns are authenticated by p's own tree - at the WRONG leaf indices - proves q(z).
    if S::NAME.starts_with("ligero") && cm.metadata.n_ext_cols.is_power_of_two() && cm.metadata.n_ext_cols >= 4 {
        use ark_poly::{EvaluationDomain, GeneralEvaluationDomain};
        let n_ext = cm.metadata.n_ext_cols;
        let m = cm.metadata.n_cols;
        if let Some(dom) = GeneralEvaluationDomain::<F>::new(n_ext) {
            let omega = dom.group_gen();
            let sft = range(rng, 1, n_ext - 1);
            let mq: Vec<Vec<F>> = c.st.mat.entries.iter().map(|row| row.iter().enumerate().map(|(cidx, x)| *x * omega.pow([(sft * cidx) as u64])).collect()).collect();
            // sanity of the construction on the first row
            let e_p = attempt(|| L::encode(&c.st.mat.entries[0], &w.ck)).ok();
            let e_q = attempt(|| L::encode(&mq[0], &w.ck)).ok();
            let rotated = match (&e_p, &e_q) {
                (Some(ep), Some(eq)) => ep.len() == n_ext && (0..n_ext).all(|j| eq[j] == ep[(j + sft) % n_ext]),
                _ => false,
            };
            if !rotated || m == 0 {
                ctx.skipped("rotated-codeword-forgery", "encoding is not rotation-covariant for this shape");
            } else {
                let vq = row_mul(&mq, &b);
                let claim = crate::oracle::inner(&vq, &a);
                let wfq = r.as_ref().map(|r| row_mul(&mq, r));
                let (_, idx) = transcript::<S, L>(&c, wfq.as_ref(), &vq, false);
                let shifted: Vec<usize> = idx.iter().map(|j| (j + sft) % n_ext).collect();
                let (cols, paths) = cols_paths(&c.st, &c.tree, &shifted);
                let pf = to_proof::<S>(MLinProof { opening: MProofSingle { paths, v: vq, columns: cols }, well_formedness: wfq });
                judge(ctx, "rotated-codeword-forgery", claim, pf, json!({"shift": sft}));
            }
        }
    }
    // (4) shape faults on top of an altered vector: well-formedness vector absent, columns repeated / shifted, paths swapped
    {
        let mut v = v_honest.clone();
        v[0] += F::one();
        let claim = crate::oracle::inner(&v, &a);
        let (_, idx) = transcript::<S, L>(&c, wf_honest.as_ref(), &v, false);
        let (cols, paths) = cols_paths(&c.st, &c.tree, &idx);
        if w.ck.check_well_formedness() {
            let pf = to_proof::<S>(MLinProof { opening: MProofSingle { paths: paths.clone(), v: v.clone(), columns: cols.clone() }, well_formedness: None });
            judge(ctx, "well-formedness-absent", claim, pf, json!({}));
        }
        if !cols.is_empty() {
            let pf = to_proof::<S>(MLinProof { opening: MProofSingle { paths: vec![paths[0].clone(); paths.len()], v: v.clone(), columns: vec![cols[0].clone(); cols.len()] }, well_formedness: wf_honest.clone() });
            judge(ctx, "columns-repeated", claim, pf, json!({}));
            let mut cs = cols.clone();
            cs.rotate_left(1);
            let pf = to_proof::<S>(MLinProof { opening: MProofSingle { paths: paths.clone(), v: v.clone(), columns: cs }, well_formedness: wf_honest.clone() });
            judge(ctx, "columns-shifted", claim, pf, json!({}));
            let mut ps = paths.clone();
            if ps.len() >= 2 {
                ps.swap(0, 1);
            }
            let pf = to_proof::<S>(MLinProof { opening: MProofSingle { paths: ps, v: v.clone(), columns: cols.clone() }, well_formedness: wf_honest.clone() });
            judge(ctx, "paths-swapped", claim, pf, json!({}));
            // truncated column / path lists
            let pf = to_proof::<S>(MLinProof { opening: MProofSingle { paths: paths[..paths.len() - 1].to_vec(), v: v.clone(), columns: cols[..cols.len() - 1].to_vec() }, well_formedness: wf_honest.clone() });
            judge(ctx, "columns-truncated", claim, pf, json!({}));
        }
    }
}
