//! C17 — out-of-domain requests are refused, never answered with a wrong result; in-domain
//! requests never abort.
use crate::for_each_scheme;
use crate::probe::mon_rng;
use crate::rt::{attempt, guard, Ctx, Out};
use crate::scen::*;
use crate::schemes::*;
use ark_ff::{One, UniformRand, Zero};
use ark_poly::{univariate::DensePolynomial, DenseMultilinearExtension, Polynomial};
use ark_poly_commit::{Evaluations, LCTerm, LabeledCommitment, LabeledPolynomial, LinearCombination, PolynomialCommitment, QuerySet};
use rand_chacha::ChaCha20Rng;
use rand_core::RngCore;
use serde_json::{json, Value};

fn refused<T>(ctx: &mut Ctx, class: &str, entry: &str, desc: Value, r: Result<T, Out>) {
    match r {
        Err(o) => {
            ctx.count(&format!("refused:{}:{}", class, o.tag()), 1);
            ctx.held(class, desc);
        }
        Ok(_) => ctx.violated(class, entry, desc, json!({"outcome": "Ok(..) returned for an out-of-domain request"})),
    }
}

fn not_accepted(ctx: &mut Ctx, class: &str, entry: &str, desc: Value, o: Out) {
    ctx.count(&format!("refused:{}:{}", class, o.tag()), 1);
    ctx.check(!o.is_accept(), class, entry, desc, || json!({"outcome": o.json()}));
}

/// generic requests every trait scheme must refuse
fn generic<S: Scheme>(ctx: &mut Ctx, rng: &mut ChaCha20Rng) {
    let thorough = ctx.is_thorough();
    let tx = match gen_tx::<S>(rng, thorough, 3) {
        Ok(t) => t,
        Err(TxErr::Refused(stage, o, desc)) => {
            // in-domain requests never abort (and are not refused)
            return ctx.violated("in-domain-refused", &stage, desc, json!({"outcome": o.json()}));
        }
    };
    let desc = json!({"tx": tx.json()});
    let q = gen_queries::<S>(&tx.w.cfg, &tx.polys, range(rng, 1, 2), rng);
    let ident: Vec<usize> = (0..tx.polys.len()).collect();
    let proof = match batch_open::<S>(&tx, &ident, &q.qs, &mut tx.sponge(), 1) {
        Ok(p) => p,
        Err(o) => return ctx.violated("in-domain-refused", "batch_open", desc, json!({"outcome": o.json()})),
    };
    let o = batch_check::<S>(&tx.w.vk, &tx.c.comms, &q.qs, &q.evals, &proof, &mut tx.sponge(), 1);
    match &o {
        Out::Panic(_) | Out::Err(_) => return ctx.violated("in-domain-refused", "batch_check", desc, json!({"outcome": o.json()})),
        _ => ctx.held("in-domain-no-abort", desc.clone()),
    }
    // ---- query for an unknown polynomial
    {
        let mut qs = q.qs.clone();
        let (pl, z) = (q.groups[0].0.clone(), q.groups[0].1.clone());
        qs.insert(("no-such-polynomial".to_string(), (pl, z.clone())));
        let r = batch_open::<S>(&tx, &ident, &qs, &mut tx.sponge(), 1);
        refused(ctx, "unknown-polynomial", "batch_open", desc.clone(), r);
        let mut ev = q.evals.clone();
        ev.insert(("no-such-polynomial".to_string(), z), FOf::<S>::one());
        let o = batch_check::<S>(&tx.w.vk, &tx.c.comms, &qs, &ev, &proof, &mut tx.sponge(), 1);
        not_accepted(ctx, "unknown-polynomial", "batch_check", desc.clone(), o);
    }
    // ---- missing evaluation
    {
        let mut ev: Evaluations<PtOf<S>, FOf<S>> = q.evals.clone();
        let k = ev.keys().next().cloned().unwrap();
        ev.remove(&k);
        let o = batch_check::<S>(&tx.w.vk, &tx.c.comms, &q.qs, &ev, &proof, &mut tx.sponge(), 1);
        not_accepted(ctx, "missing-evaluation", "batch_check", desc.clone(), o);
    }
    // ---- a commitment missing from the verifier's list
    if tx.c.comms.len() >= 1 {
        let lab = q.groups[0].2[0].clone();
        let cs: Vec<LComm<S>> = tx.c.comms.iter().filter(|c| c.label() != &lab).cloned().collect();
        let o = batch_check::<S>(&tx.w.vk, &cs, &q.qs, &q.evals, &proof, &mut tx.sponge(), 1);
        not_accepted(ctx, "unknown-polynomial", "batch_check", desc.clone(), o);
    }
    // ---- linear combination over an unknown label / missing LC evaluation
    {
        let lc = LinearCombination::new("lc", vec![(FOf::<S>::one(), LCTerm::PolyLabel("no-such-polynomial".to_string()))]);
        let z = S::gen_point(&tx.w.cfg, rng);
        let mut qs: QuerySet<PtOf<S>> = QuerySet::new();
        qs.insert(("lc".to_string(), ("z".to_string(), z)));
        let mut r = mon_rng(3);
        let lcs = [lc];
        let res = attempt(|| PcOf::<S>::open_combinations(&tx.w.ck, lcs.iter(), tx.polys.iter(), tx.c.comms.iter(), &qs, &mut tx.sponge(), tx.c.states.iter(), Some(&mut r)));
        refused(ctx, "unknown-polynomial", "open_combinations", desc.clone(), res);
    }
    // ---- polynomial larger than the key supports
    if S::KIND != Kind::Multilinear {
        let sup = S::max_poly_degree(&tx.w.cfg);
        for extra in [1usize, 2] {
            let mut cfg2 = tx.w.cfg.clone();
            cfg2.supported_degree = sup + extra;
            if S::NAME.starts_with("ligero") {
                continue; // Ligero has no degree limit below the FFT capacity of the field
            }
            let big: LPoly<S> = LabeledPolynomial::new("big".into(), S::gen_poly(&cfg2, Shape::Full, sup + extra, rng), None, None);
            if big.degree() <= sup {
                continue;
            }
            let r = commit::<S>(&tx.w.ck, std::slice::from_ref(&big), 1);
            refused(ctx, "degree-beyond-key", "commit", json!({"cfg": tx.w.cfg.json(), "degree": big.degree(), "supported": sup}), r);
            // oversized polynomials with low-order zeros (x^k * q, a single top monomial): skipping leading zeros must
            // not shrink the degree that is compared with the key
            for shape in [Shape::LowZeros, Shape::TopMonomial] {
                let bz: LPoly<S> = LabeledPolynomial::new("big".into(), S::gen_poly(&cfg2, shape, sup + extra, rng), None, None);
                if bz.degree() > sup {
                    let r = commit::<S>(&tx.w.ck, std::slice::from_ref(&bz), 1);
                    refused(ctx, "degree-beyond-key", "commit", json!({"cfg": tx.w.cfg.json(), "degree": bz.degree(), "supported": sup, "shape": format!("{:?}", shape)}), r);
                }
            }
        }
    }
    // ---- degree beyond the key at `open`: the polynomial was committed under a larger key trimmed from the same
    // parameters and is opened with a key that supports less (degree limit+1, limit+2; dense, low-order zeros, a single
    // top monomial - for PST13 mixed monomials whose single exponents all stay within the limit)
    if matches!(S::NAME, "marlin" | "sonic" | "ipa" | "pst13") && S::max_poly_degree(&tx.w.cfg) >= 2 {
        let big_lim = S::max_poly_degree(&tx.w.cfg);
        let mut small = tx.w.cfg.clone();
        small.supported_degree = range(rng, 1, tx.w.cfg.supported_degree.saturating_sub(1).max(1));
        small.enforced = None;
        small.supported_hiding = small.supported_hiding.min(small.supported_degree);
        let lim = S::max_poly_degree(&small);
        if lim < big_lim {
            if let Ok((ck_small, _vk)) = attempt(|| PcOf::<S>::trim(&tx.w.pp, small.supported_degree, small.supported_hiding, None)) {
                for extra in [1usize, 2] {
                    for shape in [Shape::Full, Shape::LowZeros, Shape::TopMonomial] {
                        if lim + extra > big_lim {
                            continue;
                        }
                        let p: LPoly<S> = LabeledPolynomial::new("big".into(), S::gen_poly(&tx.w.cfg, shape, lim + extra, rng), None, None);
                        if p.degree() <= lim {
                            continue;
                        }
                        let c = match commit::<S>(&tx.w.ck, std::slice::from_ref(&p), 2) {
                            Ok(c) => c,
                            Err(_) => continue,
                        };
                        let z = S::gen_point(&tx.w.cfg, rng);
                        let mut r = crate::probe::mon_rng(5);
                        let res = attempt(|| PcOf::<S>::open(&ck_small, [&p], c.comms.iter(), &z, &mut tx.sponge(), c.states.iter(), Some(&mut r)));
                        refused(ctx, "degree-beyond-key", "open", json!({"cfg": tx.w.cfg.json(), "opening_key_supports": lim, "degree": p.degree(), "shape": format!("{:?}", shape)}), res);
                    }
                }
            }
        }
    }
    // ---- hiding beyond the key, hiding without RNG
    if S::HIDING && S::NAME != "ipa" {
        let cfg = &tx.w.cfg;
        let deg = 1.min(S::max_poly_degree(cfg));
        let over = if S::NAME.starts_with("pst13") { cfg.supported_degree + 1 } else { cfg.supported_hiding + 1 };
        let p: LPoly<S> = LabeledPolynomial::new("h".into(), S::gen_poly(cfg, Shape::Full, deg, rng), None, Some(over));
        let r = commit::<S>(&tx.w.ck, std::slice::from_ref(&p), 1);
        refused(ctx, "hiding-beyond-key", "commit", json!({"cfg": cfg.json(), "hiding": over}), r);
        if cfg.supported_hiding >= 1 {
            let p: LPoly<S> = LabeledPolynomial::new("h".into(), S::gen_poly(cfg, Shape::Full, deg, rng), None, Some(1));
            let r = attempt(|| PcOf::<S>::commit(&tx.w.ck, [&p], None));
            refused(ctx, "hiding-without-rng", "commit", json!({"cfg": cfg.json()}), r);
        }
        if S::NAME.starts_with("pst13") {
            let p: LPoly<S> = LabeledPolynomial::new("h".into(), S::gen_poly(cfg, Shape::Full, deg, rng), None, Some(0));
            let r = commit::<S>(&tx.w.ck, std::slice::from_ref(&p), 1);
            refused(ctx, "hiding-zero", "commit", json!({"cfg": cfg.json()}), r);
        }
    }
    // ---- inconsistent degree bounds
    if S::BOUNDS {
        let cfg = &tx.w.cfg;
        let sup = S::max_poly_degree(cfg);
        if sup >= 2 {
            let p: LPoly<S> = LabeledPolynomial::new("b".into(), S::gen_poly(cfg, Shape::Full, sup, rng), Some(sup - 1), None);
            let r = commit::<S>(&tx.w.ck, std::slice::from_ref(&p), 1);
            refused(ctx, "bound-below-degree", "commit", json!({"cfg": cfg.json(), "degree": sup, "bound": sup - 1}), r);
        }
        let beyond = cfg.max_degree.max(sup) + 1;
        let p: LPoly<S> = LabeledPolynomial::new("b".into(), S::gen_poly(cfg, Shape::Full, 1.min(sup), rng), Some(beyond), None);
        let r = commit::<S>(&tx.w.ck, std::slice::from_ref(&p), 1);
        refused(ctx, "bound-beyond-key", "commit", json!({"cfg": cfg.json(), "bound": beyond}), r);
        // bounds strictly between the supported and the maximum degree: refused by every scheme except Marlin
        // (which documents enforced bounds up to max_degree)
        if !S::NAME.starts_with("marlin") && cfg.supported_degree < cfg.max_degree {
            let b = range(rng, cfg.supported_degree + 1, cfg.max_degree);
            if b > sup {
                let bl = [b];
                let r = attempt(|| PcOf::<S>::trim(&tx.w.pp, cfg.supported_degree, cfg.supported_hiding, Some(&bl)));
                match r {
                    Err(o) => {
                        ctx.count(&format!("refused:bound-above-supported:{}", o.tag()), 1);
                        ctx.held("bound-above-supported", json!({"cfg": cfg.json(), "bound": b, "stage": "trim"}));
                    }
                    Ok((ck2, _)) => {
                        // a key was handed out: it must at least refuse to commit under that bound
                        let p: LPoly<S> = LabeledPolynomial::new("b".into(), S::gen_poly(cfg, Shape::Full, 1.min(sup), rng), Some(b), None);
                        let r = commit::<S>(&ck2, std::slice::from_ref(&p), 1);
                        refused(ctx, "bound-above-supported", "trim+commit", json!({"cfg": cfg.json(), "bound": b}), r);
                    }
                }
            }
        }
        // the inner-product prover folds the given commitments into the statement it proves: a polynomial whose
        // degree bound differs from the one recorded on its commitment is an inconsistent request
        if S::NAME == "ipa" {
            let z = S::gen_point(cfg, rng);
            for i in 0..tx.polys.len() {
                let (have, deg) = (tx.specs[i].bound, tx.polys[i].degree());
                let mut alts: Vec<Option<usize>> = [deg, deg + 1, sup, (deg + sup) / 2, sup.saturating_sub(1)]
                    .into_iter()
                    .filter(|b| *b >= deg && *b <= sup && Some(*b) != have)
                    .map(Some)
                    .collect();
                alts.dedup();
                if have.is_some() {
                    alts.push(None);
                }
                for alt in alts.into_iter().take(4) {
                    let relabelled: LPoly<S> = LabeledPolynomial::new(tx.polys[i].label().clone(), tx.polys[i].polynomial().clone(), alt, tx.specs[i].hiding);
                    let mut r = mon_rng(9);
                    let res = attempt(|| PcOf::<S>::open(&tx.w.ck, [&relabelled], [&tx.c.comms[i]], &z, &mut tx.sponge(), [&tx.c.states[i]], Some(&mut r)));
                    refused(ctx, "bound-differs-from-commitment", "open", json!({"cfg": cfg.json(), "degree": deg, "commitment_bound": have, "polynomial_bound": alt, "hiding": tx.specs[i].hiding}), res);
                }
            }
        }
        // a commitment presented with a bound the verifier key was not trimmed for
        if let Some(i) = (0..tx.polys.len()).find(|&i| tx.specs[i].bound.is_some()) {
            let cs: Vec<LComm<S>> = tx.c.comms.iter().enumerate().map(|(j, c)| if j == i { LabeledCommitment::new(c.label().clone(), c.commitment().clone(), Some(beyond)) } else { c.clone() }).collect();
            if q.qs.iter().any(|(l, _)| l == tx.polys[i].label()) {
                let o = batch_check::<S>(&tx.w.vk, &cs, &q.qs, &q.evals, &proof, &mut tx.sponge(), 1);
                not_accepted(ctx, "bound-beyond-key", "batch_check", json!({"cfg": cfg.json(), "bound": beyond}), o);
            }
        }
    }
}

fn setup_requests(ctx: &mut Ctx, rng: &mut ChaCha20Rng) {
    type Mar = <MarlinS<E381> as Scheme>::PC;
    type Son = <SonicS<E381> as Scheme>::PC;
    type Pst = <Pst13S<E381> as Scheme>::PC;
    type Hyx = <HyraxS as Scheme>::PC;
    type Bd = <BrakedownS as Scheme>::PC;
    ctx.run_cases("setup/marlin", 1, |ctx, _, rng| refused(ctx, "setup-degree-zero", "setup", json!({"scheme": "marlin"}), attempt(|| Mar::setup(0, None, rng))));
    ctx.run_cases("setup/sonic", 1, |ctx, _, rng| refused(ctx, "setup-degree-zero", "setup", json!({"scheme": "sonic"}), attempt(|| Son::setup(0, None, rng))));
    ctx.run_cases("setup/kzg10", 1, |ctx, _, rng| {
        refused(ctx, "setup-degree-zero", "KZG10::setup", json!({"scheme": "kzg10"}), attempt(|| ark_poly_commit::kzg10::KZG10::<E381, DensePolynomial<ark_bls12_381::Fr>>::setup(0, false, rng)))
    });
    ctx.run_cases("setup/pst13", 4, |ctx, i, rng| {
        let (d, nv, what) = [(0usize, Some(2usize), "degree 0"), (2, None, "num_vars None"), (2, Some(0), "num_vars 0"), (0, Some(0), "both 0")][i as usize];
        refused(ctx, "setup-zero", "setup", json!({"scheme": "pst13", "request": what}), attempt(|| Pst::setup(d, nv, rng)))
    });
    ctx.run_cases("setup/hyrax", 3, |ctx, i, rng| {
        let (nv, what) = [(None, "num_vars None"), (Some(1usize), "odd num_vars"), (Some(5), "odd num_vars")][i as usize];
        refused(ctx, "setup-num-vars", "setup", json!({"scheme": "hyrax", "request": what}), attempt(|| Hyx::setup(1, nv, rng)))
    });
    ctx.run_cases("setup/brakedown", 1, |ctx, _, rng| refused(ctx, "setup-num-vars", "setup", json!({"scheme": "brakedown", "request": "num_vars None"}), attempt(|| Bd::setup(1, None, rng))));
    ctx.run_cases("setup/mlpst", 1, |ctx, _, rng| {
        let r = guard(|| ark_poly_commit::multilinear_pc::MultilinearPC::<E381>::setup(0, rng)).map_err(Out::Panic);
        refused(ctx, "setup-zero", "MultilinearPC::setup", json!({"scheme": "mlpst", "request": "num_vars 0"}), r)
    });
    let _ = rng;
}

/// wrong number of variables, mismatched labels, wrong point length (multilinear schemes)
fn multilinear<S: Scheme<P = DenseMultilinearExtension<<S as Scheme>::F>>>(ctx: &mut Ctx, rng: &mut ChaCha20Rng)
where
    PtOf<S>: From<Vec<FOf<S>>>,
{
    let mut cfg = S::gen_cfg(rng, false);
    if S::NAME == "hyrax" && cfg.num_vars == Some(0) {
        cfg.num_vars = Some(2);
    }
    let nv = cfg.num_vars.unwrap();
    let w = match make_world::<S>(&cfg, rng) {
        Ok(w) => w,
        Err((st, o)) => return ctx.violated("in-domain-refused", &st, cfg.json(), json!({"outcome": o.json()})),
    };
    let fixed_nv = S::NAME == "hyrax" || S::NAME == "brakedown";
    if fixed_nv {
        let step = if S::NAME == "hyrax" { 2 } else { 1 };
        for (nv2, cls) in [(nv + step, "wrong-num-vars[larger]"), (nv.saturating_sub(step), "wrong-num-vars[smaller]")] {
            if nv2 == nv || (S::NAME != "hyrax" && nv2 == 0) {
                continue;
            }
            let p: LPoly<S> = LabeledPolynomial::new("p".into(), ml_poly::<FOf<S>>(nv2, Shape::Full, rng), None, None);
            let r = commit::<S>(&w.ck, std::slice::from_ref(&p), 1);
            // a commitment that can be opened and verified would be a wrong result; so is a commitment to a
            // silently truncated / padded polynomial
            refused(ctx, cls, "commit", json!({"scheme": S::NAME, "key_num_vars": nv, "poly_num_vars": nv2}), r);
        }
    }
    // point of the wrong length at open / check
    let p: LPoly<S> = LabeledPolynomial::new("p".into(), ml_poly::<FOf<S>>(nv, Shape::Full, rng), None, None);
    if let Ok(c) = commit::<S>(&w.ck, std::slice::from_ref(&p), 1) {
        let z: Vec<FOf<S>> = (0..nv).map(|_| FOf::<S>::rand(rng)).collect();
        let mut zl = z.clone();
        zl.push(FOf::<S>::rand(rng));
        if S::NAME == "hyrax" {
            zl.push(FOf::<S>::rand(rng));
        }
        let zl: PtOf<S> = zl.into();
        let zg: PtOf<S> = z.clone().into();
        let mut r = mon_rng(2);
        let res = attempt(|| PcOf::<S>::open(&w.ck, [&p], c.comms.iter(), &zl, &mut crate::probe::sponge::<FOf<S>>(b"c17"), c.states.iter(), Some(&mut r)));
        refused(ctx, "point-length-mismatch", "open", json!({"scheme": S::NAME, "num_vars": nv}), res);
        let mut r = mon_rng(2);
        if let Ok(pf) = attempt(|| PcOf::<S>::open(&w.ck, [&p], c.comms.iter(), &zg, &mut crate::probe::sponge::<FOf<S>>(b"c17"), c.states.iter(), Some(&mut r))) {
            let v = p.evaluate(&zg);
            let o = check::<S>(&w.vk, &[&c.comms[0]], &zl, &[v], &pf, &mut crate::probe::sponge::<FOf<S>>(b"c17"), 1);
            not_accepted(ctx, "point-length-mismatch", "check", json!({"scheme": S::NAME, "num_vars": nv}), o);
        }
        // mismatched labels between polynomial and commitment lists
        if S::NAME == "hyrax" {
            let other: LComm<S> = LabeledCommitment::new("other".into(), c.comms[0].commitment().clone(), c.comms[0].degree_bound());
            let mut r = mon_rng(2);
            let res = attempt(|| PcOf::<S>::open(&w.ck, [&p], [&other], &zg, &mut crate::probe::sponge::<FOf<S>>(b"c17"), c.states.iter(), Some(&mut r)));
            refused(ctx, "mismatched-labels", "open", json!({"scheme": S::NAME}), res);
        }
    }
}

fn ipa_labels(ctx: &mut Ctx, rng: &mut ChaCha20Rng) {
    type S = IpaS;
    let cfg = <S as Scheme>::gen_cfg(rng, false);
    let w = match make_world::<S>(&cfg, rng) {
        Ok(w) => w,
        Err(_) => return,
    };
    let p: LPoly<S> = LabeledPolynomial::new("p".into(), uni_poly::<JFr>(Shape::Full, 1.min(<S as Scheme>::max_poly_degree(&cfg)), rng), None, None);
    if let Ok(c) = commit::<S>(&w.ck, std::slice::from_ref(&p), 1) {
        let other: LComm<S> = LabeledCommitment::new("other".into(), c.comms[0].commitment().clone(), None);
        let z = JFr::rand(rng);
        let mut r = mon_rng(2);
        let res = attempt(|| PcOf::<S>::open(&w.ck, [&p], [&other], &z, &mut crate::probe::sponge::<JFr>(b"c17"), c.states.iter(), Some(&mut r)));
        refused(ctx, "mismatched-labels", "open", json!({"scheme": "ipa"}), res);
    }
}

/// PST13 supports no degree bounds: a commitment presented with a degree bound and a degree-bound part must not
/// be answered with a positive verification result.
fn pst13_bounded_commitment(ctx: &mut Ctx, rng: &mut ChaCha20Rng) {
    type S = Pst13S<E381>;
    let tx = match gen_tx::<S>(rng, false, 2) {
        Ok(t) => t,
        Err(_) => return ctx.skipped("baseline", "honest pipeline refused (reported under C01)"),
    };
    let z = <S as Scheme>::gen_point(&tx.w.cfg, rng);
    let idx: Vec<usize> = (0..tx.polys.len()).collect();
    let vals: Vec<ark_bls12_381::Fr> = tx.polys.iter().map(|p| p.evaluate(&z)).collect();
    let proof = match open::<S>(&tx, &idx, &z, &mut tx.sponge(), 2) {
        Ok(p) => p,
        Err(_) => return ctx.skipped("baseline", "honest open refused (reported under C01)"),
    };
    let base: Vec<&LComm<S>> = tx.c.comms.iter().collect();
    if check::<S>(&tx.w.vk, &base, &z, &vals, &proof, &mut tx.sponge(), 2) != Out::Accept {
        return ctx.skipped("baseline", "honest proof not accepted (reported under C01)");
    }
    let c0 = tx.c.comms[0].commitment();
    let bound = range(rng, 1, tx.w.cfg.supported_degree);
    for (how, shifted) in [("own-commitment", c0.comm), ("identity", ark_poly_commit::kzg10::Commitment(<<E381 as ark_ec::pairing::Pairing>::G1Affine as ark_ec::AffineRepr>::zero()))] {
        let forged = ark_poly_commit::marlin_pc::Commitment::<E381> { comm: c0.comm, shifted_comm: Some(shifted) };
        let lc: LComm<S> = LabeledCommitment::new(tx.c.comms[0].label().clone(), forged, Some(bound));
        let mut cs: Vec<&LComm<S>> = tx.c.comms.iter().collect();
        cs[0] = &lc;
        let o = check::<S>(&tx.w.vk, &cs, &z, &vals, &proof, &mut tx.sponge(), 2);
        not_accepted(ctx, "bound-on-scheme-without-bounds", "check", json!({"tx": tx.json(), "bound": bound, "degree_bound_part": how}), o);
    }
}

fn direct(ctx: &mut Ctx, rng: &mut ChaCha20Rng) {
    use super::offtrait::kzg_world;
    use ark_poly_commit::kzg10::KZG10;
    use ark_poly_commit::multilinear_pc::MultilinearPC;
    type Fr = ark_bls12_381::Fr;
    type K = KZG10<E381, DensePolynomial<Fr>>;
    if let Ok(w) = kzg_world(rng) {
        let powers = w.powers();
        let desc = json!({"max_degree": w.max_degree, "supported": w.supported, "hiding_supported": w.hiding_sup});
        let big = uni_poly::<Fr>(Shape::Full, w.supported + 1, rng);
        refused(ctx, "degree-beyond-key", "KZG10::commit", desc.clone(), attempt(|| K::commit(&powers, &big, None, None)));
        for shape in [Shape::LowZeros, Shape::TopMonomial] {
            let bz = uni_poly::<Fr>(shape, w.supported + 1 + below(rng, 2), rng);
            if ark_poly::Polynomial::degree(&bz) > w.supported {
                refused(ctx, "degree-beyond-key", "KZG10::commit", desc.clone(), attempt(|| K::commit(&powers, &bz, None, None)));
            }
        }
        let p = uni_poly::<Fr>(Shape::Full, w.supported, rng);
        refused(ctx, "hiding-beyond-key", "KZG10::commit", desc.clone(), attempt(|| K::commit(&powers, &p, Some(w.hiding_sup + 1), Some(rng))));
        refused(ctx, "hiding-without-rng", "KZG10::commit", desc.clone(), attempt(|| K::commit(&powers, &p, Some(1), None)));
        if let Ok((_, r)) = attempt(|| K::commit(&powers, &p, None, None)) {
            refused(ctx, "degree-beyond-key", "KZG10::open", desc.clone(), attempt(|| K::open(&powers, &big, Fr::one(), &r)));
        }
        // in-domain boundary: degree == supported, hiding == supported hiding
        let ok = attempt(|| K::commit(&powers, &p, Some(w.hiding_sup), Some(rng)));
        ctx.check(ok.is_ok(), "in-domain-no-abort", "KZG10::commit", desc, || json!({"outcome": ok.as_ref().err().map(|o| o.json())}));
    }
    // KZG10::batch_check with slices of unequal lengths: every combination of {commitments, points, values, proofs}
    // shortened (or extended) by one entry - except all four together - is an inconsistent request
    if let Ok(w) = kzg_world(rng) {
        use super::offtrait::kzg_item;
        let n = range(rng, 2, 4);
        let items: Vec<_> = (0..n + 1).filter_map(|_| kzg_item(&w, rng).ok()).collect();
        if items.len() == n + 1 {
            let vk = w.vk();
            let comms: Vec<_> = items.iter().map(|i| i.comm).collect();
            let zs: Vec<_> = items.iter().map(|i| i.z).collect();
            let vs: Vec<_> = items.iter().map(|i| i.v).collect();
            let pfs: Vec<_> = items.iter().map(|i| i.proof).collect();
            let mut r = mon_rng(3);
            let base = crate::rt::decide(|| K::batch_check(&vk, &comms[..n], &zs[..n], &vs[..n], &pfs[..n], &mut r));
            ctx.check(base == Out::Accept, "in-domain-no-abort", "KZG10::batch_check", json!({"claims": n}), || json!({"outcome": base.json()}));
            for mask in 1u32..15 {
                // bit set: that list has n entries; bit clear: n + 1 entries (one honest surplus claim)
                let len = |b: u32| if mask & (1 << b) != 0 { n } else { n + 1 };
                let (lc, lz, lv, lp) = (len(0), len(1), len(2), len(3));
                let mut r = mon_rng(4);
                let o = crate::rt::decide(|| K::batch_check(&vk, &comms[..lc], &zs[..lz], &vs[..lv], &pfs[..lp], &mut r));
                not_accepted(ctx, "list-lengths-differ", "KZG10::batch_check", json!({"commitments": lc, "points": lz, "values": lv, "proofs": lp}), o);
            }
        }
    }
    // multilinear PST: polynomial with another number of variables than the key
    let nv = range(rng, 2, 5);
    if let Ok((ck, _vk)) = guard(|| {
        let pp = MultilinearPC::<E381>::setup(nv, rng);
        MultilinearPC::<E381>::trim(&pp, nv)
    }) {
        for (nv2, cls) in [(nv + 1, "wrong-num-vars[larger]"), (nv - 1, "wrong-num-vars[smaller]")] {
            let p = ml_poly::<Fr>(nv2, Shape::Full, rng);
            let r = guard(|| MultilinearPC::<E381>::commit(&ck, &p)).map_err(Out::Panic);
            refused(ctx, cls, "MultilinearPC::commit", json!({"key_num_vars": nv, "poly_num_vars": nv2}), r);
            let z: Vec<Fr> = (0..nv2).map(|_| Fr::rand(rng)).collect();
            let r = guard(|| MultilinearPC::<E381>::open(&ck, &p, &z)).map_err(Out::Panic);
            refused(ctx, cls, "MultilinearPC::open", json!({"key_num_vars": nv, "poly_num_vars": nv2}), r);
        }
    }
    let _ = Fr::zero();
}

pub fn run(ctx: &mut Ctx) {
    for_each_scheme!(ctx, S, {
        let n = ctx.n(80, 1600) / <S as Scheme>::WEIGHT.max(1);
        ctx.run_cases(<S as Scheme>::NAME, n.max(4), |ctx, _i, rng| generic::<S>(ctx, rng));
    });
    let mut r0 = ctx.case_rng("setup", 0);
    setup_requests(ctx, &mut r0);
    let n = ctx.n(60, 1200);
    ctx.run_cases("pst13/bounded-commitment", n / 4, |ctx, _i, rng| pst13_bounded_commitment(ctx, rng));
    ctx.run_cases("hyrax/vars", n, |ctx, _i, rng| multilinear::<HyraxS>(ctx, rng));
    ctx.run_cases("ligero-ml/vars", n, |ctx, _i, rng| multilinear::<MlLigeroS>(ctx, rng));
    ctx.run_cases("brakedown/vars", n / 2, |ctx, _i, rng| multilinear::<BrakedownS>(ctx, rng));
    ctx.run_cases("ipa/labels", n / 2, |ctx, _i, rng| ipa_labels(ctx, rng));
    ctx.run_cases("direct", n, |ctx, _i, rng| direct(ctx, rng));
}
