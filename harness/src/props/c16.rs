//! C16 — public algebraic helpers satisfy their defining identities.
use crate::ju::{fe, h64};
use crate::rt::{guard, Ctx};
use ark_bls12_381::Fr;
use ark_ed_on_bls12_381::Fr as JFr;
use ark_ff::{Field, One, PrimeField, UniformRand, Zero};
use ark_poly::{
    univariate::DensePolynomial, DenseMultilinearExtension, DenseUVPolynomial,
};
use ark_poly_commit::{
    evaluate_query_set, ipa_pc::SuccinctCheckPolynomial, LCTerm, LabeledPolynomial,
    LinearCombination, QuerySet,
};
use rand_core::RngCore;
use serde_json::json;
use std::collections::{BTreeMap, BTreeSet};

const LABELS: [&str; 5] = ["a", "b", "c", "dd", "e"];

fn small_or_rand<F: PrimeField>(rng: &mut impl RngCore) -> F {
    match rng.next_u32() % 6 {
        0 => F::zero(),
        1 => F::one(),
        2 => -F::one(),
        3 => F::from(2u64),
        _ => F::rand(rng),
    }
}

fn rand_lc<F: PrimeField>(label: &str, rng: &mut impl RngCore) -> LinearCombination<F> {
    // mostly 0..4 terms; one operand in thirty is long (up to 400 terms with repeated labels and constants)
    let nterms = if rng.next_u32() % 30 == 0 { 20 + (rng.next_u32() % 380) as usize } else { (rng.next_u32() % 5) as usize };
    let mut terms: Vec<(F, LCTerm)> = Vec::new();
    for _ in 0..nterms {
        let c = small_or_rand::<F>(rng);
        let t = if rng.next_u32() % 5 == 0 {
            LCTerm::One
        } else {
            LCTerm::PolyLabel(LABELS[(rng.next_u32() % 5) as usize].to_string())
        };
        terms.push((c, t));
    }
    // three ways of building the same combination: push on an empty one, `new` from LCTerm values,
    // `new` from label strings (only when no constant term takes part)
    match rng.next_u32() % 3 {
        0 => {
            let mut lc = LinearCombination::empty(label);
            for t in terms {
                lc.push(t);
            }
            lc
        }
        1 => LinearCombination::new(label, terms),
        _ => {
            if terms.iter().all(|(_, t)| !t.is_one()) {
                let v: Vec<(F, String)> = terms
                    .iter()
                    .map(|(c, t)| match t {
                        LCTerm::PolyLabel(l) => (*c, l.clone()),
                        LCTerm::One => unreachable!(),
                    })
                    .collect();
                LinearCombination::new(label, v)
            } else {
                LinearCombination::new(label, terms)
            }
        }
    }
}

fn value<F: PrimeField>(lc: &LinearCombination<F>, asg: &BTreeMap<String, F>) -> F {
    let mut v = F::zero();
    for (c, t) in lc.iter() {
        match t {
            LCTerm::One => v += *c,
            LCTerm::PolyLabel(l) => v += *c * asg[l],
        }
    }
    v
}

fn lc_case<F: PrimeField>(ctx: &mut Ctx, rng: &mut impl RngCore) {
    let asg: BTreeMap<String, F> =
        LABELS.iter().map(|l| (l.to_string(), F::rand(rng))).collect();
    let mut lc = rand_lc::<F>("acc", rng);
    let mut expect = value(&lc, &asg);
    let nops = 1 + (rng.next_u32() % 12) as usize;
    let mut ops = Vec::new();
    for _ in 0..nops {
        let kind = rng.next_u32() % 7;
        let other = if rng.next_u32() % 10 == 0 { lc.clone() } else { rand_lc::<F>("opnd", rng) };
        let ov = value(&other, &asg);
        let c = small_or_rand::<F>(rng);
        let name;
        match kind {
            0 => {
                lc += (c, &other);
                expect += c * ov;
                name = "+=(c,lc)";
            }
            1 => {
                lc -= (c, &other);
                expect -= c * ov;
                name = "-=(c,lc)";
            }
            2 => {
                lc += &other;
                expect += ov;
                name = "+=lc";
            }
            3 => {
                lc -= &other;
                expect -= ov;
                name = "-=lc";
            }
            4 => {
                lc += c;
                expect += c;
                name = "+=F";
            }
            5 => {
                lc -= c;
                expect -= c;
                name = "-=F";
            }
            _ => {
                lc *= c;
                expect *= c;
                name = "*=F";
            }
        }
        ops.push(name);
        let got = value(&lc, &asg);
        let ok = got == expect && lc.label() == "acc";
        if !ok {
            ctx.violated(
                "lc-arith",
                "LinearCombination",
                json!({"ops": ops, "nterms": lc.len()}),
                json!({"expected": fe(&expect), "got": fe(&got), "failing_op": name, "label": lc.label()}),
            );
            return;
        }
    }
    let hash = h64(format!("{:?}{}", ops, fe(&expect)).as_bytes());
    ctx.held_fast("lc-arith", hash, || json!({"ops": ops, "nterms": lc.len(), "value": fe(&expect)}));
}

fn qs_case_uni(ctx: &mut Ctx, rng: &mut impl RngCore) {
    let npolys = 1 + (rng.next_u32() % 5) as usize;
    let polys: Vec<LabeledPolynomial<Fr, DensePolynomial<Fr>>> = (0..npolys)
        .map(|i| {
            let d = (rng.next_u32() % 12) as usize;
            let p = if rng.next_u32() % 8 == 0 {
                DensePolynomial::zero()
            } else {
                DensePolynomial::rand(d, rng)
            };
            LabeledPolynomial::new(format!("p{}", (i * 7) % 5), p, None, None)
        })
        .collect();
    // labels may repeat: the last one in list order wins in a BTreeMap::from_iter; avoid duplicates
    let mut seen = BTreeSet::new();
    let polys: Vec<_> = polys.into_iter().filter(|p| seen.insert(p.label().clone())).collect();
    let npts = 1 + (rng.next_u32() % 4) as usize;
    let pts: Vec<Fr> = (0..npts).map(|_| Fr::rand(rng)).collect();
    let mut qs = QuerySet::new();
    let nq = 1 + (rng.next_u32() % 10) as usize;
    for _ in 0..nq {
        let p = &polys[(rng.next_u32() as usize) % polys.len()];
        let k = (rng.next_u32() as usize) % npts;
        // several point labels may share one point value
        let pl = format!("z{}", (rng.next_u32() % 6));
        qs.insert((p.label().clone(), (pl, pts[k])));
    }
    let r = guard(|| evaluate_query_set(polys.iter(), &qs));
    let desc = json!({"kind":"univariate","npolys": polys.len(), "nqueries": qs.len(), "npoints": npts,
        "degrees": polys.iter().map(|p| p.degree()).collect::<Vec<_>>()});
    match r {
        Err(p) => ctx.violated("evaluate-query-set", "evaluate_query_set", desc, json!({"panic": p})),
        Ok(evals) => {
            let mut want = BTreeMap::new();
            for (l, (_, z)) in &qs {
                let p = polys.iter().find(|p| p.label() == l).unwrap();
                // independent Horner
                let mut acc = Fr::zero();
                for c in p.polynomial().coeffs().iter().rev() {
                    acc = acc * z + c;
                }
                want.insert((l.clone(), *z), acc);
            }
            let ok = want == evals;
            ctx.check(ok, "evaluate-query-set", "evaluate_query_set", desc, || {
                json!({"want_entries": want.len(), "got_entries": evals.len()})
            });
        }
    }
}

fn qs_case_ml(ctx: &mut Ctx, rng: &mut impl RngCore) {
    let nv = 1 + (rng.next_u32() % 5) as usize;
    let npolys = 1 + (rng.next_u32() % 4) as usize;
    let polys: Vec<LabeledPolynomial<JFr, DenseMultilinearExtension<JFr>>> = (0..npolys)
        .map(|i| {
            let ev: Vec<JFr> = (0..1 << nv).map(|_| JFr::rand(rng)).collect();
            LabeledPolynomial::new(
                format!("m{}", i),
                DenseMultilinearExtension::from_evaluations_vec(nv, ev),
                None,
                None,
            )
        })
        .collect();
    let npts = 1 + (rng.next_u32() % 3) as usize;
    let pts: Vec<Vec<JFr>> = (0..npts).map(|_| (0..nv).map(|_| JFr::rand(rng)).collect()).collect();
    let mut qs = QuerySet::new();
    let nq = 1 + (rng.next_u32() % 8) as usize;
    for _ in 0..nq {
        let p = &polys[(rng.next_u32() as usize) % polys.len()];
        let k = (rng.next_u32() as usize) % npts;
        qs.insert((p.label().clone(), (format!("z{}", rng.next_u32() % 4), pts[k].clone())));
    }
    let r = guard(|| evaluate_query_set(polys.iter(), &qs));
    let desc = json!({"kind":"multilinear","nv": nv, "npolys": polys.len(), "nqueries": qs.len()});
    match r {
        Err(p) => ctx.violated("evaluate-query-set", "evaluate_query_set", desc, json!({"panic": p})),
        Ok(evals) => {
            let mut want = BTreeMap::new();
            for (l, (_, z)) in &qs {
                let p = polys.iter().find(|p| p.label() == l).unwrap();
                // independent MLE evaluation: sum_x f(x) * prod_i (x_i z_i + (1-x_i)(1-z_i)), x little-endian
                let ev = &p.polynomial().evaluations;
                let mut acc = JFr::zero();
                for (x, f) in ev.iter().enumerate() {
                    let mut w = JFr::one();
                    for i in 0..nv {
                        w *= if (x >> i) & 1 == 1 { z[i] } else { JFr::one() - z[i] };
                    }
                    acc += w * f;
                }
                want.insert((l.clone(), z.clone()), acc);
            }
            let ok = want == evals;
            ctx.check(ok, "evaluate-query-set", "evaluate_query_set", desc, || {
                json!({"want_entries": want.len(), "got_entries": evals.len()})
            });
        }
    }
}

fn succinct_case<F: PrimeField>(ctx: &mut Ctx, k: usize, rng: &mut impl RngCore) {
    let ch: Vec<F> = (0..k)
        .map(|_| match rng.next_u32() % 10 {
            0 => F::zero(),
            1 => F::one(),
            _ => F::rand(rng),
        })
        .collect();
    let z = match rng.next_u32() % 10 {
        0 => F::zero(),
        1 => F::one(),
        _ => F::rand(rng),
    };
    let scp = SuccinctCheckPolynomial(ch.clone());
    let r = guard(|| (scp.compute_coeffs(), scp.evaluate(z)));
    let desc = json!({"k": k, "z": fe(&z), "ch0": ch.first().map(fe)});
    match r {
        Err(p) => ctx.violated("succinct-check-poly", "SuccinctCheckPolynomial", desc, json!({"panic": p})),
        Ok((coeffs, ev)) => {
            // definition: h(X) = prod_{i=1..k} (1 + u_i X^(2^(k-i)))
            let mut href = F::one();
            for (i, u) in ch.iter().enumerate() {
                let e = 1u64 << (k - 1 - i);
                href *= F::one() + *u * z.pow([e]);
            }
            let mut horner = F::zero();
            for c in coeffs.iter().rev() {
                horner = horner * z + c;
            }
            // coefficient-wise reference: coeff[j] = prod_{i: bit (k-1-i) of j set} u_i
            let mut coeff_ok = coeffs.len() == 1 << k;
            if coeff_ok {
                for (j, c) in coeffs.iter().enumerate() {
                    let mut w = F::one();
                    for (i, u) in ch.iter().enumerate() {
                        if (j >> (k - 1 - i)) & 1 == 1 {
                            w *= u;
                        }
                    }
                    if w != *c {
                        coeff_ok = false;
                        break;
                    }
                }
            }
            let ok = coeff_ok && ev == horner && ev == href;
            ctx.check(ok, "succinct-check-poly", "SuccinctCheckPolynomial", desc, || {
                json!({"len": coeffs.len(), "evaluate": fe(&ev), "horner": fe(&horner), "definition": fe(&href), "coeffs_match_definition": coeff_ok})
            });
        }
    }
}

pub fn run(ctx: &mut Ctx) {
    let n_lc = ctx.n(60_000, 3_000_000);
    ctx.run_cases("lc-bls381fr", n_lc, |ctx, _i, rng| lc_case::<Fr>(ctx, rng));
    ctx.run_cases("lc-jubjubfr", n_lc / 2, |ctx, _i, rng| lc_case::<JFr>(ctx, rng));
    let n_qs = ctx.n(8_000, 300_000);
    ctx.run_cases("qs-univariate", n_qs, |ctx, _i, rng| qs_case_uni(ctx, rng));
    ctx.run_cases("qs-multilinear", n_qs / 2, |ctx, _i, rng| qs_case_ml(ctx, rng));
    let n_sc = ctx.n(6_000, 200_000);
    ctx.run_cases("ipa-succinct", n_sc, |ctx, i, rng| succinct_case::<JFr>(ctx, (i % 11) as usize, rng));
}
