//! C04 — degree bounds are enforced by committer and verifier (Marlin, Sonic, IPA).
use crate::rt::{Ctx, Out};
use crate::scen::*;
use crate::schemes::{below, range, skewed, Cfg, IpaS, MarlinS, Scheme, Shape, SonicS, E377, E381};
use ark_ec::pairing::Pairing;
use ark_ff::Zero;
use ark_poly::Polynomial;
use ark_poly_commit::{ipa_pc, marlin_pc, LabeledCommitment, LabeledPolynomial};
use rand_chacha::ChaCha20Rng;
use rand_core::RngCore;
use serde_json::json;

pub trait ShiftOps: Scheme {
    /// commitment with its degree-bound part removed (None if the scheme has no separate part)
    fn drop_shift(c: &CommOf<Self>) -> Option<CommOf<Self>>;
    /// commitment `c` with the degree-bound part of `from`
    fn borrow_shift(c: &CommOf<Self>, from: &CommOf<Self>) -> Option<CommOf<Self>>;
    /// commitment `c` with the identity element as degree-bound part
    fn identity_shift(c: &CommOf<Self>) -> Option<CommOf<Self>>;
    /// does the key refuse bounds above the supported degree already at trim?
    fn bounds_above_supported_ok() -> bool;
    fn any_bound_ok() -> bool {
        false
    }
    fn pt_field(z: &PtOf<Self>) -> FOf<Self>;
}

impl<E: Pairing + crate::schemes::CurveTag> ShiftOps for MarlinS<E>
where
    E::ScalarField: ark_crypto_primitives::sponge::Absorb,
{
    fn drop_shift(c: &marlin_pc::Commitment<E>) -> Option<marlin_pc::Commitment<E>> {
        Some(marlin_pc::Commitment { comm: c.comm, shifted_comm: None })
    }
    fn borrow_shift(c: &marlin_pc::Commitment<E>, from: &marlin_pc::Commitment<E>) -> Option<marlin_pc::Commitment<E>> {
        Some(marlin_pc::Commitment { comm: c.comm, shifted_comm: from.shifted_comm })
    }
    fn identity_shift(c: &marlin_pc::Commitment<E>) -> Option<marlin_pc::Commitment<E>> {
        Some(marlin_pc::Commitment { comm: c.comm, shifted_comm: Some(ark_poly_commit::kzg10::Commitment(<E::G1Affine as ark_ec::AffineRepr>::zero())) })
    }
    fn bounds_above_supported_ok() -> bool {
        true
    }
    fn pt_field(z: &PtOf<Self>) -> FOf<Self> {
        *z
    }
}
impl<E: Pairing + crate::schemes::CurveTag> ShiftOps for SonicS<E>
where
    E::ScalarField: ark_crypto_primitives::sponge::Absorb,
{
    fn drop_shift(_: &CommOf<Self>) -> Option<CommOf<Self>> {
        None
    }
    fn borrow_shift(_: &CommOf<Self>, _: &CommOf<Self>) -> Option<CommOf<Self>> {
        None
    }
    fn identity_shift(_: &CommOf<Self>) -> Option<CommOf<Self>> {
        None
    }
    fn bounds_above_supported_ok() -> bool {
        false
    }
    fn pt_field(z: &PtOf<Self>) -> FOf<Self> {
        *z
    }
}
impl ShiftOps for IpaS {
    fn drop_shift(c: &CommOf<Self>) -> Option<CommOf<Self>> {
        Some(ipa_pc::Commitment { comm: c.comm, shifted_comm: None })
    }
    fn borrow_shift(c: &CommOf<Self>, from: &CommOf<Self>) -> Option<CommOf<Self>> {
        Some(ipa_pc::Commitment { comm: c.comm, shifted_comm: from.shifted_comm })
    }
    fn identity_shift(c: &CommOf<Self>) -> Option<CommOf<Self>> {
        Some(ipa_pc::Commitment { comm: c.comm, shifted_comm: Some(ark_ec::AffineRepr::zero()) })
    }
    fn bounds_above_supported_ok() -> bool {
        false
    }
    fn any_bound_ok() -> bool {
        true
    }
    fn pt_field(z: &PtOf<Self>) -> FOf<Self> {
        *z
    }
}

fn cfg_with_bounds<S: ShiftOps>(rng: &mut ChaCha20Rng) -> Cfg {
    let max_degree = skewed(rng, 4, 64);
    let supported_degree = if rng.next_u32() % 3 == 0 { max_degree } else { range(rng, 3, max_degree) };
    let supported_hiding = range(rng, 1, supported_degree);
    let top = if S::bounds_above_supported_ok() && rng.next_u32() % 3 == 0 { max_degree } else { supported_degree };
    let nb = range(rng, 2, 4);
    let mut v: Vec<usize> = Vec::new();
    while v.len() < nb.min(top) {
        let b = match rng.next_u32() % 3 {
            0 => top,
            _ => range(rng, 1, top),
        };
        if !v.contains(&b) {
            v.push(b);
        }
    }
    if rng.next_u32() % 3 == 0 {
        let d = v[0];
        v.push(d);
    }
    Cfg { max_degree, num_vars: None, supported_degree, supported_hiding, enforced: Some(v) }
}

fn sorted_bounds<S: ShiftOps>(cfg: &Cfg) -> Vec<usize> {
    if S::any_bound_ok() {
        return (1..=S::max_poly_degree(cfg)).collect();
    }
    let mut v = cfg.enforced.clone().unwrap();
    v.sort();
    v.dedup();
    v
}

fn lp<S: Scheme>(label: &str, p: POf<S>, b: Option<usize>, h: Option<usize>) -> LPoly<S> {
    LabeledPolynomial::new(label.to_string(), p, b, h)
}

fn refusal<S: ShiftOps>(ctx: &mut Ctx, w: &World<S>, rng: &mut ChaCha20Rng) {
    let cfg = &w.cfg;
    let bounds = sorted_bounds::<S>(cfg);
    let sup = S::max_poly_degree(cfg);
    let hid = |rng: &mut ChaCha20Rng| if rng.next_u32() % 2 == 0 { Some(1usize) } else { None };
    let expect_refused = |ctx: &mut Ctx, class: &str, poly: LPoly<S>, extra: serde_json::Value, rng: &mut ChaCha20Rng| {
        let r = commit::<S>(&w.ck, std::slice::from_ref(&poly), rng.next_u64());
        let desc = json!({"cfg": cfg.json(), "degree": poly.degree(), "bound": poly.degree_bound(), "hiding": poly.hiding_bound(), "extra": extra});
        match r {
            Err(o) => {
                ctx.count(&format!("refused:{}:{}", class, o.tag()), 1);
                ctx.held(class, desc);
            }
            Ok(_) => ctx.violated(class, "commit", desc, json!({"outcome": "Ok(commitment)"})),
        }
    };
    // (a) degree exceeds declared bound by one (bound usable, degree within the key)
    let cands: Vec<usize> = bounds.iter().copied().filter(|b| *b + 1 <= sup).collect();
    if let Some(&d) = cands.get(below(rng, cands.len().max(1))) {
        let p = S::gen_poly(cfg, Shape::Full, d + 1, rng);
        let h = hid(rng);
        expect_refused(ctx, "degree-exceeds-bound", lp::<S>("p", p, Some(d), h), json!({"deg": d + 1, "bound": d}), rng);
        // prover side: open with states of a valid commitment
        let good = lp::<S>("p", S::gen_poly(cfg, Shape::Full, d, rng), Some(d), h);
        if let Ok(c) = commit::<S>(&w.ck, std::slice::from_ref(&good), rng.next_u64()) {
            let bad = lp::<S>("p", S::gen_poly(cfg, Shape::Full, d + 1, rng), Some(d), h);
            let z = S::gen_point(cfg, rng);
            let mut sp = crate::probe::sponge::<FOf<S>>(b"c04");
            let mut r = crate::probe::mon_rng(rng.next_u64());
            let res = crate::rt::attempt(|| {
                <PcOf<S> as ark_poly_commit::PolynomialCommitment<FOf<S>, POf<S>>>::open(&w.ck, [&bad], c.comms.iter(), &z, &mut sp, c.states.iter(), Some(&mut r))
            });
            let desc = json!({"cfg": cfg.json(), "degree": d + 1, "bound": d, "hiding": h});
            match res {
                Err(_) => ctx.held("open-degree-exceeds-bound", desc),
                Ok(_) => ctx.violated("open-degree-exceeds-bound", "open", desc, json!({"outcome": "Ok(proof)"})),
            }
        }
    } else {
        ctx.skipped("degree-exceeds-bound", "no usable bound below the supported degree");
    }
    // (b) bound not in the enforced set
    if !S::any_bound_ok() {
        let missing: Vec<usize> = (1..=cfg.supported_degree).filter(|b| !bounds.contains(b)).collect();
        if missing.is_empty() {
            ctx.skipped("bound-not-enforced", "every bound is enforced");
        } else {
            let d = missing[below(rng, missing.len())];
            let p = S::gen_poly(cfg, Shape::Random, d, rng);
            expect_refused(ctx, "bound-not-enforced", lp::<S>("p", p, Some(d), hid(rng)), json!({"bound": d, "enforced": bounds}), rng);
        }
    }
    // (c) bound beyond what the key supports
    {
        let d = if S::bounds_above_supported_ok() { cfg.max_degree + 1 + below(rng, 2) } else { sup + 1 + below(rng, 2) };
        let p = S::gen_poly(cfg, Shape::Random, sup.min(3), rng);
        expect_refused(ctx, "bound-beyond-key", lp::<S>("p", p, Some(d), hid(rng)), json!({"bound": d}), rng);
    }
    // (d) degree beyond the supported degree
    {
        let p = S::gen_poly(cfg, Shape::Full, sup + 1, rng);
        expect_refused(ctx, "degree-beyond-key", lp::<S>("p", p, None, hid(rng)), json!({"deg": sup + 1}), rng);
    }
}

/// Two keys trimmed from one SRS: a polynomial of degree d+1 committed under bound d+1 with the second
/// key and presented, with its honest proof, under bound d to the first key's verifier.
fn cross_key<S: ShiftOps>(ctx: &mut Ctx, w: &World<S>, rng: &mut ChaCha20Rng) {
    let cfg = &w.cfg;
    let bounds = sorted_bounds::<S>(cfg);
    let cands: Vec<usize> = bounds.iter().copied().filter(|d| *d + 1 <= cfg.max_degree).collect();
    if cands.is_empty() {
        return ctx.skipped("cross-key-mislabel", "no bound below the maximum degree");
    }
    let d = cands[below(rng, cands.len())];
    let d2 = d + 1;
    let sup2 = range(rng, d2.max(1), cfg.max_degree);
    let cfg2 = Cfg { max_degree: cfg.max_degree, num_vars: None, supported_degree: sup2, supported_hiding: cfg.supported_hiding.min(sup2).max(1), enforced: Some(vec![d2]) };
    let (ck2, vk2) = match crate::rt::attempt(|| {
        <PcOf<S> as ark_poly_commit::PolynomialCommitment<FOf<S>, POf<S>>>::trim(&w.pp, cfg2.supported_degree, cfg2.supported_hiding, cfg2.enforced.as_deref())
    }) {
        Ok(k) => k,
        Err(o) => return ctx.violated("honest-pipeline-refused", "trim", cfg2.json(), json!({"outcome": o.json()})),
    };
    let hiding = if rng.next_u32() % 2 == 0 { Some(1usize) } else { None };
    let poly = lp::<S>("p", S::gen_poly(&cfg2, Shape::Full, d2, rng), Some(d2), hiding);
    let c = match commit::<S>(&ck2, std::slice::from_ref(&poly), rng.next_u64()) {
        Ok(c) => c,
        Err(o) => return ctx.violated("honest-pipeline-refused", "commit", json!({"cfg": cfg2.json(), "bound": d2}), json!({"outcome": o.json()})),
    };
    let z = S::gen_point(cfg, rng);
    let v = poly.evaluate(&z);
    let desc = json!({"cfg_verifier": cfg.json(), "cfg_prover": cfg2.json(), "actual_bound": d2, "degree": d2, "presented_bound": d, "hiding": hiding});
    let mut sp = crate::probe::sponge::<FOf<S>>(b"c04x");
    let mut r = crate::probe::mon_rng(rng.next_u64());
    let proof = match crate::rt::attempt(|| {
        <PcOf<S> as ark_poly_commit::PolynomialCommitment<FOf<S>, POf<S>>>::open(&ck2, [&poly], c.comms.iter(), &z, &mut sp, c.states.iter(), Some(&mut r))
    }) {
        Ok(p) => p,
        Err(o) => return ctx.violated("honest-pipeline-refused", "open", desc, json!({"outcome": o.json()})),
    };
    // positive control with the prover's own verifier key
    let o = check::<S>(&vk2, &[&c.comms[0]], &z, &[v], &proof, &mut crate::probe::sponge::<FOf<S>>(b"c04x"), 1);
    if o != Out::Accept {
        return ctx.violated("positive-control", "check", desc, json!({"outcome": o.json()}));
    }
    let relabelled: LComm<S> = LabeledCommitment::new("p".into(), c.comms[0].commitment().clone(), Some(d));
    let o = check::<S>(&w.vk, &[&relabelled], &z, &[v], &proof, &mut crate::probe::sponge::<FOf<S>>(b"c04x"), 2);
    if v.is_zero() || S::pt_field(&z).is_zero() {
        ctx.skipped("cross-key-mislabel", "p(z) = 0 or z = 0: the bound identity holds trivially at this point");
    } else {
        ctx.check(!o.is_accept(), "cross-key-mislabel", "check", desc, || json!({"outcome": o.json()}));
    }
}

fn case<S: ShiftOps>(ctx: &mut Ctx, rng: &mut ChaCha20Rng) {
    let cfg = cfg_with_bounds::<S>(rng);
    let w = match make_world::<S>(&cfg, rng) {
        Ok(w) => w,
        Err((stage, o)) => return ctx.violated("honest-pipeline-refused", &stage, cfg.json(), json!({"outcome": o.json()})),
    };
    refusal::<S>(ctx, &w, rng);
    cross_key::<S>(ctx, &w, rng);
    // ---- verifier side: mislabelled bound
    let bounds = sorted_bounds::<S>(&cfg);
    if bounds.len() < 2 {
        return ctx.skipped("mislabelled-bound", "fewer than two usable bounds");
    }
    // choose d' (actual) and d (presented), d != d'
    let i = below(rng, bounds.len());
    let mut j = below(rng, bounds.len());
    if i == j {
        j = (i + 1) % bounds.len();
    }
    let (d_actual, d_label) = (bounds[i], bounds[j]);
    let sup = S::max_poly_degree(&cfg);
    let deg = range(rng, 0, d_actual.min(sup));
    let hiding = if rng.next_u32() % 2 == 0 { Some(range(rng, 1, cfg.supported_hiding.min(d_actual).max(1))) } else { None };
    let hiding = if cfg.supported_hiding.min(d_actual) == 0 { None } else { hiding };
    // companion polynomial (same actual bound) for swap / borrow, and an unbounded one
    let p = lp::<S>("p", S::gen_poly(&cfg, Shape::Full, deg, rng), Some(d_actual), hiding);
    let qd = range(rng, 0, d_actual.min(sup));
    let q = lp::<S>("q", S::gen_poly(&cfg, Shape::Full, qd, rng), Some(d_actual), hiding);
    let polys = vec![p, q];
    let c = match commit::<S>(&w.ck, &polys, rng.next_u64()) {
        Ok(c) => c,
        Err(o) => {
            return ctx.violated("honest-pipeline-refused", "commit", json!({"cfg": cfg.json(), "bound": d_actual, "deg": deg, "hiding": hiding}), json!({"outcome": o.json()}))
        }
    };
    let z = S::gen_point(&cfg, rng);
    let vals: Vec<FOf<S>> = polys.iter().map(|p| p.evaluate(&z)).collect();
    let pre = b"c04-transcript".to_vec();
    let tx = Tx::<S> { w, specs: vec![], polys, c, pre, commit_seed: 0 };
    let desc = json!({"cfg": cfg.json(), "actual_bound": d_actual, "presented_bound": d_label, "degrees": [deg, qd], "hiding": hiding});
    // honest proof for both polynomials at z, and positive control
    let proof = match open::<S>(&tx, &[0, 1], &z, &mut tx.sponge(), rng.next_u64()) {
        Ok(p) => p,
        Err(o) => return ctx.violated("honest-pipeline-refused", "open", desc, json!({"outcome": o.json()})),
    };
    let comms: Vec<&LComm<S>> = tx.c.comms.iter().collect();
    let base = check::<S>(&tx.w.vk, &comms, &z, &vals, &proof, &mut tx.sponge(), 1);
    if base != Out::Accept {
        return ctx.violated("positive-control", "check", desc, json!({"outcome": base.json()}));
    }
    ctx.held("positive-control", desc.clone());
    // precondition of the identity-at-a-point enforcement: z random, p(z) != 0, z^(D-d) != z^(D-d')
    let zf: FOf<S> = S::pt_field(&z);
    let pre_ok = !vals[0].is_zero() && !zf.is_zero();
    // (1) relabel: commitment made under d', presented as d, honest proof
    {
        let relabelled: LComm<S> = LabeledCommitment::new("p".into(), tx.c.comms[0].commitment().clone(), Some(d_label));
        let cs = vec![&relabelled, &tx.c.comms[1]];
        let o = check::<S>(&tx.w.vk, &cs, &z, &vals, &proof, &mut tx.sponge(), 2);
        if pre_ok {
            ctx.count(&format!("mislabel:{}", o.tag()), 1);
            ctx.check(!o.is_accept(), "mislabelled-bound", "check", desc.clone(), || json!({"outcome": o.json(), "proof": "honest for actual bound"}));
        } else {
            ctx.skipped("mislabelled-bound", "p(z) = 0 or z = 0: the bound identity holds trivially at this point");
        }
        // dishonest prover through the library: polynomial labelled d (admissible if deg <= d), state from d'
        if deg <= d_label {
            let fake = lp::<S>("p", tx.polys[0].polynomial().clone(), Some(d_label), hiding);
            let mut sp = tx.sponge();
            let mut r = crate::probe::mon_rng(rng.next_u64());
            let lcs = [relabelled.clone(), tx.c.comms[1].clone()];
            let res = crate::rt::attempt(|| {
                <PcOf<S> as ark_poly_commit::PolynomialCommitment<FOf<S>, POf<S>>>::open(&tx.w.ck, [&fake, &tx.polys[1]], lcs.iter(), &z, &mut sp, tx.c.states.iter(), Some(&mut r))
            });
            match res {
                Err(_) => ctx.skipped("mislabelled-bound-prover-relabels", "library prover refuses the relabelled polynomial"),
                Ok(pf2) => {
                    let o = check::<S>(&tx.w.vk, &cs, &z, &vals, &pf2, &mut tx.sponge(), 3);
                    if pre_ok {
                        ctx.check(!o.is_accept(), "mislabelled-bound-prover-relabels", "check", desc.clone(), || json!({"outcome": o.json(), "proof": "library prover run with the presented bound and the original state"}));
                    } else {
                        ctx.skipped("mislabelled-bound-prover-relabels", "p(z) = 0 or z = 0: the bound identity holds trivially at this point");
                    }
                }
            }
        }
    }
    // (1b) presented under a bound the verifier key was NOT trimmed for (below / between the enforced ones)
    if !S::any_bound_ok() {
        let top = *bounds.last().unwrap();
        let missing: Vec<usize> = (1..top).filter(|b| !bounds.contains(b)).collect();
        if missing.is_empty() {
            ctx.skipped("unenforced-bound-label", "every bound below the largest enforced one is enforced");
        } else {
            let dm = missing[below(rng, missing.len())];
            let relabelled: LComm<S> = LabeledCommitment::new("p".into(), tx.c.comms[0].commitment().clone(), Some(dm));
            let cs = vec![&relabelled, &tx.c.comms[1]];
            let o = check::<S>(&tx.w.vk, &cs, &z, &vals, &proof, &mut tx.sponge(), 8);
            let mut d = desc.clone();
            d["presented_bound"] = json!(dm);
            d["enforced"] = json!(bounds);
            // an unenforced label that happens to name the right shift cannot exist: dm != d_actual by construction
            if pre_ok {
                ctx.check(!o.is_accept(), "unenforced-bound-label", "check", d, || json!({"outcome": o.json()}));
            } else {
                ctx.skipped("unenforced-bound-label", "p(z) = 0 or z = 0: the bound identity holds trivially at this point");
            }
        }
    }
    // (2) label removed (bound dropped on the verifier side)
    {
        let unl: LComm<S> = LabeledCommitment::new("p".into(), tx.c.comms[0].commitment().clone(), None);
        let cs = vec![&unl, &tx.c.comms[1]];
        let o = check::<S>(&tx.w.vk, &cs, &z, &vals, &proof, &mut tx.sponge(), 4);
        if S::NAME.starts_with("sonic") && d_actual == cfg.max_degree {
            // shift by max_degree - d = 0: the bounded and the unbounded commitment coincide
            ctx.skipped("bound-label-removed", "bound equals the maximum degree: the bounded commitment is the plain commitment");
        } else if pre_ok {
            ctx.check(!o.is_accept(), "bound-label-removed", "check", desc.clone(), || json!({"outcome": o.json()}));
        } else {
            ctx.skipped("bound-label-removed", "p(z) = 0 or z = 0: the bound identity holds trivially at this point");
        }
    }
    // (3) shifted part dropped (label None and label kept), swapped, borrowed
    if let Some(dropped) = S::drop_shift(tx.c.comms[0].commitment()) {
        for (lab, cls) in [(None, "shifted-part-dropped"), (Some(d_actual), "shifted-part-dropped-label-kept")] {
            let lc: LComm<S> = LabeledCommitment::new("p".into(), dropped.clone(), lab);
            let cs = vec![&lc, &tx.c.comms[1]];
            let o = check::<S>(&tx.w.vk, &cs, &z, &vals, &proof, &mut tx.sponge(), 5);
            if lab.is_none() && deg == 0 && hiding.is_none() {
                // constant, unblinded polynomial: the witness is zero, the identity proof also proves the
                // (true) unbounded claim, so acceptance is correct
                ctx.skipped(cls, "constant unblinded polynomial: the unbounded claim is true and the proof is trivial");
            } else if pre_ok {
                ctx.check(!o.is_accept(), cls, "check", desc.clone(), || json!({"outcome": o.json()}));
            } else {
                ctx.skipped(cls, "p(z) = 0 or z = 0: the bound identity holds trivially at this point");
            }
        }
        let differ = tx.polys[0].polynomial() != tx.polys[1].polynomial();
        if let (Some(a), Some(b)) = (
            S::borrow_shift(tx.c.comms[0].commitment(), tx.c.comms[1].commitment()),
            S::borrow_shift(tx.c.comms[1].commitment(), tx.c.comms[0].commitment()),
        ) {
            if differ {
                let la: LComm<S> = LabeledCommitment::new("p".into(), a.clone(), Some(d_actual));
                let lb: LComm<S> = LabeledCommitment::new("q".into(), b, Some(d_actual));
                let o = check::<S>(&tx.w.vk, &[&la, &lb], &z, &vals, &proof, &mut tx.sponge(), 6);
                ctx.check(!o.is_accept(), "shifted-parts-swapped", "check", desc.clone(), || json!({"outcome": o.json()}));
                let o = check::<S>(&tx.w.vk, &[&la, &tx.c.comms[1]], &z, &vals, &proof, &mut tx.sponge(), 7);
                ctx.check(!o.is_accept(), "shifted-part-borrowed", "check", desc.clone(), || json!({"outcome": o.json()}));
            } else {
                ctx.skipped("shifted-parts-swapped", "the two polynomials coincide");
            }
        }
    }
    // (4) a polynomial of degree above d committed WITHOUT bound and opened honestly as unbounded; the verifier is
    // shown the same commitment labelled with bound d and a made-up degree-bound part (identity element, or the
    // part of an honest bounded commitment to another polynomial)
    let d_small = bounds[0];
    if d_small < sup && S::identity_shift(tx.c.comms[0].commitment()).is_some() {
        let udeg = range(rng, d_small + 1, sup);
        let u = lp::<S>("u", S::gen_poly(&cfg, Shape::Full, udeg, rng), None, hiding);
        if let Ok(cu) = commit::<S>(&tx.w.ck, std::slice::from_ref(&u), rng.next_u64()) {
            let uv = u.evaluate(&z);
            let mut sp = tx.sponge();
            let mut r = crate::probe::mon_rng(rng.next_u64());
            let res = crate::rt::attempt(|| {
                <PcOf<S> as ark_poly_commit::PolynomialCommitment<FOf<S>, POf<S>>>::open(&tx.w.ck, [&u], cu.comms.iter(), &z, &mut sp, cu.states.iter(), Some(&mut r))
            });
            if let Ok(upf) = res {
                let ok = check::<S>(&tx.w.vk, &[&cu.comms[0]], &z, &[uv], &upf, &mut tx.sponge(), 9);
                let mut d4 = desc.clone();
                d4["unbounded_degree"] = json!(udeg);
                d4["presented_bound"] = json!(d_small);
                if ok != Out::Accept {
                    ctx.violated("positive-control", "check", d4, json!({"outcome": ok.json(), "transcript": "unbounded"}));
                } else if uv.is_zero() || zf.is_zero() {
                    ctx.skipped("unbounded-transcript-under-bound", "u(z) = 0 or z = 0: the bound identity holds trivially at this point");
                } else {
                    let forged = [
                        ("identity", S::identity_shift(cu.comms[0].commitment())),
                        ("borrowed", S::borrow_shift(cu.comms[0].commitment(), tx.c.comms[1].commitment())),
                    ];
                    for (how, fc) in forged {
                        if let Some(fc) = fc {
                            let lc: LComm<S> = LabeledCommitment::new("u".into(), fc, Some(d_small));
                            let o = check::<S>(&tx.w.vk, &[&lc], &z, &[uv], &upf, &mut tx.sponge(), 10);
                            let mut dj = d4.clone();
                            dj["degree_bound_part"] = json!(how);
                            ctx.check(!o.is_accept(), "unbounded-transcript-under-bound", "check", dj, || json!({"outcome": o.json()}));
                        }
                    }
                    // the same through the equation path: eq = 1*u opened as unbounded, the verifier's commitment list
                    // carries the bound label with no / a made-up degree-bound part
                    {
                        use ark_poly_commit::{LCTerm, LinearCombination, QuerySet, Evaluations, PolynomialCommitment};
                        let eq = LinearCombination::new("eq", vec![(<FOf<S> as ark_ff::One>::one(), LCTerm::PolyLabel("u".to_string()))]);
                        let mut qs: QuerySet<PtOf<S>> = QuerySet::new();
                        qs.insert(("eq".to_string(), ("z".to_string(), z.clone())));
                        let mut ev: Evaluations<PtOf<S>, FOf<S>> = Evaluations::new();
                        ev.insert(("eq".to_string(), z.clone()), uv);
                        let eqs = [eq];
                        let mut r = crate::probe::mon_rng(11);
                        let lp = crate::rt::attempt(|| <PcOf<S> as PolynomialCommitment<FOf<S>, POf<S>>>::open_combinations(&tx.w.ck, eqs.iter(), [&u], cu.comms.iter(), &qs, &mut tx.sponge(), cu.states.iter(), Some(&mut r)));
                        if let Ok(lp) = lp {
                            let shapes: Vec<(&str, Option<CommOf<S>>)> = vec![
                                ("label-only", Some(cu.comms[0].commitment().clone())),
                                ("identity", S::identity_shift(cu.comms[0].commitment())),
                                ("borrowed", S::borrow_shift(cu.comms[0].commitment(), tx.c.comms[1].commitment())),
                            ];
                            let mut r = crate::probe::mon_rng(12);
                            let honest = crate::rt::decide(|| <PcOf<S> as PolynomialCommitment<FOf<S>, POf<S>>>::check_combinations(&tx.w.vk, eqs.iter(), cu.comms.iter(), &qs, &ev, &lp, &mut tx.sponge(), &mut r));
                            if honest == Out::Accept {
                                for (how, fc) in shapes {
                                    if let Some(fc) = fc {
                                        let lc: LComm<S> = LabeledCommitment::new("u".into(), fc, Some(d_small));
                                        let mut r = crate::probe::mon_rng(12);
                                        let o = crate::rt::decide(|| <PcOf<S> as PolynomialCommitment<FOf<S>, POf<S>>>::check_combinations(&tx.w.vk, eqs.iter(), [&lc], &qs, &ev, &lp, &mut tx.sponge(), &mut r));
                                        let mut dj = d4.clone();
                                        dj["degree_bound_part"] = json!(how);
                                        ctx.check(!o.is_accept(), "unbounded-transcript-under-bound", "check_combinations", dj, || json!({"outcome": o.json()}));
                                    }
                                }
                            }
                        }
                    }
                }
            }
        }
    }
}

pub fn run(ctx: &mut Ctx) {
    let n = ctx.n(200, 4000);
    ctx.run_cases("marlin", n / 2, |ctx, _i, rng| case::<MarlinS<E381>>(ctx, rng));
    ctx.run_cases("sonic", n / 2, |ctx, _i, rng| case::<SonicS<E381>>(ctx, rng));
    ctx.run_cases("ipa", n, |ctx, _i, rng| case::<IpaS>(ctx, rng));
    if ctx.is_thorough() {
        ctx.run_cases("marlin-377", n / 4, |ctx, _i, rng| case::<MarlinS<E377>>(ctx, rng));
        ctx.run_cases("sonic-377", n / 4, |ctx, _i, rng| case::<SonicS<E377>>(ctx, rng));
    }
}
