//! C08 — commitments are the key-defined linear map of the polynomial (homomorphic);
//! hash-based commitments equal an independent recomputation of the Merkle root.
use crate::mirror::{convert, MHyraxState, MLinCommitment};
use crate::oracle::{merkle_root, naive_msm};
use crate::rt::{attempt, guard, Ctx};
use crate::scen::*;
use crate::schemes::*;
use ark_ec::{pairing::Pairing, AffineRepr, CurveGroup};
use ark_ff::{One, PrimeField, UniformRand, Zero};
use ark_poly::{
    multivariate::Term, univariate::DensePolynomial, DenseMVPolynomial, DenseMultilinearExtension, DenseUVPolynomial,
    MultilinearExtension, Polynomial,
};
use ark_poly_commit::linear_codes::{LinCodeParametersInfo, LinearEncode};
use ark_poly_commit::{kzg10, LabeledPolynomial, PCCommitterKey, PCUniversalParams};
use ark_serialize::CanonicalSerialize;
use ark_std::ops::Mul;
use rand_chacha::ChaCha20Rng;
use rand_core::RngCore;
use serde_json::json;

fn scalar<F: PrimeField>(rng: &mut impl RngCore) -> F {
    match rng.next_u32() % 5 {
        0 => F::zero(),
        1 => F::one(),
        2 => -F::one(),
        _ => F::rand(rng),
    }
}

fn lin<F: PrimeField>(a: F, p: &DensePolynomial<F>, b: F, q: &DensePolynomial<F>) -> DensePolynomial<F> {
    let mut r = DensePolynomial::zero();
    r += (a, p);
    r += (b, q);
    r
}

// ------------------------------------------------------------------ Marlin / Sonic (KZG family)

fn kzg_family<E: Pairing + CurveTag, S>(ctx: &mut Ctx, rng: &mut ChaCha20Rng, sonic: bool)
where
    E::ScalarField: ark_crypto_primitives::sponge::Absorb,
    S: Scheme<F = E::ScalarField, P = DensePolynomial<E::ScalarField>>,
    PpOf<S>: AsKzgParams<E>,
    CommOf<S>: CommParts<E>,
    StateOf<S>: RandParts<E::ScalarField>,
{
    let cfg = S::gen_cfg(rng, ctx.is_thorough());
    let w = match make_world::<S>(&cfg, rng) {
        Ok(w) => w,
        Err(_) => return ctx.skipped("baseline", "setup/trim refused (reported under C01/C09)"),
    };
    let pp = w.pp.kzg();
    let max = pp.powers_of_g.len() - 1;
    let bounds = usable_bounds::<S>(&cfg);
    let sup = cfg.supported_degree;
    let bound = if !bounds.is_empty() && rng.next_u32() % 2 == 0 { Some(bounds[below(rng, bounds.len())]) } else { None };
    let top = bound.map(|b| b.min(sup)).unwrap_or(sup);
    let shape_p = pick_shape(rng);
    let shape_q = pick_shape(rng);
    let p = uni_poly::<E::ScalarField>(shape_p, below(rng, top + 1), rng);
    let q = uni_poly::<E::ScalarField>(shape_q, below(rng, top + 1), rng);
    let (a, b) = (scalar::<E::ScalarField>(rng), scalar::<E::ScalarField>(rng));
    let r = lin(a, &p, b, &q);
    // hiding_bound in [1, min(bound, supported hiding)]: a degree bound of zero admits no hiding
    let hiding = if cfg.supported_hiding.min(bound.unwrap_or(usize::MAX)) >= 1 && rng.next_u32() % 2 == 0 {
        Some(range(rng, 1, cfg.supported_hiding.min(bound.unwrap_or(usize::MAX))))
    } else {
        None
    };
    let polys: Vec<LPoly<S>> = vec![
        LabeledPolynomial::new("p".into(), p.clone(), bound, hiding),
        LabeledPolynomial::new("q".into(), q.clone(), bound, hiding),
        LabeledPolynomial::new("r".into(), r.clone(), bound, None),
        LabeledPolynomial::new("zero".into(), DensePolynomial::zero(), bound, None),
    ];
    let desc = json!({"cfg": cfg.json(), "bound": bound, "hiding": hiding, "shapes": [format!("{:?}", shape_p), format!("{:?}", shape_q)],
        "degrees": [p.degree(), q.degree(), r.degree()]});
    let c = match commit::<S>(&w.ck, &polys, rng.next_u64()) {
        Ok(c) => c,
        Err(o) => return ctx.violated("honest-pipeline-refused", "commit", desc, json!({"outcome": o.json()})),
    };
    // naive images under the PUBLIC PARAMETERS (not the trimmed key): plain window 0.., shifted window (max-d)..
    let naive_plain = |f: &DensePolynomial<E::ScalarField>| naive_msm(&pp.powers_of_g[..], f.coeffs());
    let naive_shift = |f: &DensePolynomial<E::ScalarField>, d: usize| naive_msm(&pp.powers_of_g[max - d..], f.coeffs());
    let gamma: Vec<E::G1Affine> = (0..pp.powers_of_gamma_g.len()).map(|i| pp.powers_of_gamma_g[&i]).collect();
    let blind = |coeffs: &[E::ScalarField], off: usize| naive_msm(&gamma[off..], coeffs);
    let fs = [&p, &q, &r, &DensePolynomial::zero()];
    let mut ok_plain = true;
    let mut ok_shift = true;
    let mut detail = vec![];
    for (i, f) in fs.iter().enumerate() {
        let (plain, shifted) = c.comms[i].commitment().parts();
        let (rp, rs) = c.states[i].parts();
        if sonic {
            // Sonic: one element; bounded polynomials are committed over the shifted window, blinded over the shifted gamma window
            let want = match bound {
                Some(d) => naive_shift(f, d) + blind(&rp, max - d),
                None => naive_plain(f) + blind(&rp, 0),
            };
            if want.into_affine() != plain {
                ok_plain = false;
                detail.push(format!("poly {} commitment differs from naive image", i));
            }
        } else {
            let want = naive_plain(f) + blind(&rp, 0);
            if want.into_affine() != plain {
                ok_plain = false;
                detail.push(format!("poly {} plain part differs", i));
            }
            match (bound, shifted) {
                (Some(d), Some(s)) => {
                    let want = naive_shift(f, d) + blind(&rs.clone().unwrap_or_default(), 0);
                    if want.into_affine() != s {
                        ok_shift = false;
                        detail.push(format!("poly {} shifted part differs", i));
                    }
                }
                (None, None) => {}
                _ => {
                    ok_shift = false;
                    detail.push(format!("poly {} shifted part presence does not match the bound", i));
                }
            }
        }
    }
    ctx.check(ok_plain, "naive-msm-plain", "commit", desc.clone(), || json!({"detail": detail}));
    if bound.is_some() && !sonic {
        ctx.check(ok_shift, "naive-msm-shifted", "commit", desc.clone(), || json!({"detail": detail}));
    }
    // zero polynomial, non-hiding: identity in every part
    {
        let (plain, shifted) = c.comms[3].commitment().parts();
        let ok = plain.is_zero() && shifted.map(|s| s.is_zero()).unwrap_or(true);
        ctx.check(ok, "zero-is-identity", "commit", desc.clone(), || json!({"plain_is_identity": plain.is_zero()}));
    }
    // additivity including blinding: a*C(p) + b*C(q) == naive(a p + b q) + <a r_p + b r_q, gamma>, where the combined
    // randomness is formed with the library's own AddAssign on commitment states
    {
        let (pp_, ps) = c.comms[0].commitment().parts();
        let (qp, qs) = c.comms[1].commitment().parts();
        let mut st = <StateOf<S> as ark_poly_commit::PCCommitmentState>::empty();
        let stp = c.states[0].clone();
        let stq = c.states[1].clone();
        let comb = guard(|| {
            StateOf::<S>::add_scaled(&mut st, a, &stp);
            StateOf::<S>::add_scaled(&mut st, b, &stq);
            st
        });
        match comb {
            Err(pn) => ctx.violated("additivity", "Randomness::add_assign", desc.clone(), json!({"panic": pn})),
            Ok(st) => {
                let (rp, rs) = st.parts();
                let lhs = pp_.mul(a) + qp.mul(b);
                let (off, base) = match (sonic, bound) {
                    (true, Some(d)) => (max - d, naive_shift(&r, d)),
                    _ => (0, naive_plain(&r)),
                };
                let ok1 = lhs == base + blind(&rp, off);
                let mut ok2 = true;
                if let (Some(d), Some(ps), Some(qs)) = (bound, ps, qs) {
                    let lhs = ps.mul(a) + qs.mul(b);
                    ok2 = lhs == naive_shift(&r, d) + blind(&rs.unwrap_or_default(), 0);
                }
                // and against the library's own commitment to r (non-hiding) when nothing is blinded
                let mut ok3 = true;
                if hiding.is_none() {
                    let (rp_, _) = c.comms[2].commitment().parts();
                    ok3 = lhs.into_affine() == rp_;
                }
                ctx.check(ok1 && ok2 && ok3, "additivity", "commit", desc.clone(), || json!({"plain": ok1, "shifted": ok2, "vs_library_commit_of_combination": ok3}));
            }
        }
    }
    let _ = PCUniversalParams::max_degree(&w.pp);
}

pub trait AsKzgParams<E: Pairing> {
    fn kzg(&self) -> &kzg10::UniversalParams<E>;
}
impl<E: Pairing> AsKzgParams<E> for kzg10::UniversalParams<E> {
    fn kzg(&self) -> &kzg10::UniversalParams<E> {
        self
    }
}
pub trait CommParts<E: Pairing> {
    fn parts(&self) -> (E::G1Affine, Option<E::G1Affine>);
}
impl<E: Pairing> CommParts<E> for ark_poly_commit::marlin_pc::Commitment<E> {
    fn parts(&self) -> (E::G1Affine, Option<E::G1Affine>) {
        (self.comm.0, self.shifted_comm.map(|c| c.0))
    }
}
impl<E: Pairing> CommParts<E> for kzg10::Commitment<E> {
    fn parts(&self) -> (E::G1Affine, Option<E::G1Affine>) {
        (self.0, None)
    }
}
pub trait RandParts<F: PrimeField>: Sized {
    /// blinding coefficients of the plain part and of the shifted part
    fn parts(&self) -> (Vec<F>, Option<Vec<F>>);
    fn add_scaled(acc: &mut Self, f: F, other: &Self);
}
impl<F: PrimeField> RandParts<F> for ark_poly_commit::marlin_pc::Randomness<F, DensePolynomial<F>> {
    fn parts(&self) -> (Vec<F>, Option<Vec<F>>) {
        (self.rand.blinding_polynomial.coeffs.clone(), self.shifted_rand.as_ref().map(|r| r.blinding_polynomial.coeffs.clone()))
    }
    fn add_scaled(acc: &mut Self, f: F, other: &Self) {
        *acc += (f, other);
    }
}
impl<F: PrimeField> RandParts<F> for kzg10::Randomness<F, DensePolynomial<F>> {
    fn parts(&self) -> (Vec<F>, Option<Vec<F>>) {
        (self.blinding_polynomial.coeffs.clone(), None)
    }
    fn add_scaled(acc: &mut Self, f: F, other: &Self) {
        *acc += (f, other);
    }
}

// ------------------------------------------------------------------ IPA

fn ipa(ctx: &mut Ctx, rng: &mut ChaCha20Rng) {
    type S = IpaS;
    let cfg = S::gen_cfg(rng, false);
    let w = match make_world::<S>(&cfg, rng) {
        Ok(w) => w,
        Err(_) => return ctx.skipped("baseline", "setup/trim refused (reported under C01/C09)"),
    };
    let sup = w.ck.supported_degree();
    let bound = if rng.next_u32() % 2 == 0 { Some(range(rng, 0, sup)) } else { None };
    let top = bound.unwrap_or(sup);
    let (sp_, sq) = (pick_shape(rng), pick_shape(rng));
    let p = uni_poly::<JFr>(sp_, below(rng, top + 1), rng);
    let q = uni_poly::<JFr>(sq, below(rng, top + 1), rng);
    let (a, b) = (scalar::<JFr>(rng), scalar::<JFr>(rng));
    let r = lin(a, &p, b, &q);
    let hiding = if rng.next_u32() % 2 == 0 { Some(1usize) } else { None };
    let polys: Vec<LPoly<S>> = vec![
        LabeledPolynomial::new("p".into(), p.clone(), bound, hiding),
        LabeledPolynomial::new("q".into(), q.clone(), bound, hiding),
        LabeledPolynomial::new("r".into(), r.clone(), bound, None),
        LabeledPolynomial::new("zero".into(), DensePolynomial::zero(), bound, None),
    ];
    let desc = json!({"cfg": cfg.json(), "supported": sup, "bound": bound, "hiding": hiding, "shapes": [format!("{:?}", sp_), format!("{:?}", sq)], "degrees": [p.degree(), q.degree()]});
    let c = match commit::<S>(&w.ck, &polys, rng.next_u64()) {
        Ok(c) => c,
        Err(o) => return ctx.violated("honest-pipeline-refused", "commit", desc, json!({"outcome": o.json()})),
    };
    let key = &w.pp.comm_key;
    let s = w.pp.s;
    let fs = [&p, &q, &r, &DensePolynomial::zero()];
    let mut ok_plain = true;
    let mut ok_shift = true;
    for (i, f) in fs.iter().enumerate() {
        let cm = c.comms[i].commitment();
        let st = &c.states[i];
        let want = naive_msm(&key[..], f.coeffs()) + s.mul(st.rand);
        ok_plain &= want.into_affine() == cm.comm;
        match (bound, cm.shifted_comm) {
            (Some(d), Some(sc)) => {
                let want = naive_msm(&key[sup - d..], f.coeffs()) + s.mul(st.shifted_rand.unwrap_or(JFr::zero()));
                ok_shift &= want.into_affine() == sc;
            }
            (None, None) => {}
            _ => ok_shift = false,
        }
    }
    ctx.check(ok_plain, "naive-msm-plain", "commit", desc.clone(), || json!({}));
    if bound.is_some() {
        ctx.check(ok_shift, "naive-msm-shifted", "commit", desc.clone(), || json!({}));
    }
    let z = c.comms[3].commitment();
    ctx.check(z.comm.is_zero() && z.shifted_comm.map(|x| x.is_zero()).unwrap_or(true), "zero-is-identity", "commit", desc.clone(), || json!({}));
    let (cp, cq) = (c.comms[0].commitment(), c.comms[1].commitment());
    let rr = c.states[0].rand * a + c.states[1].rand * b;
    let lhs = cp.comm.mul(a) + cq.comm.mul(b);
    let mut ok = lhs == naive_msm(&key[..], r.coeffs()) + s.mul(rr);
    if let (Some(d), Some(sp), Some(sq)) = (bound, cp.shifted_comm, cq.shifted_comm) {
        let rs = c.states[0].shifted_rand.unwrap_or(JFr::zero()) * a + c.states[1].shifted_rand.unwrap_or(JFr::zero()) * b;
        ok &= sp.mul(a) + sq.mul(b) == naive_msm(&key[sup - d..], r.coeffs()) + s.mul(rs);
    }
    if hiding.is_none() {
        ok &= lhs.into_affine() == c.comms[2].commitment().comm;
    }
    ctx.check(ok, "additivity", "commit", desc, || json!({}));
}

// ------------------------------------------------------------------ PST13

fn pst13(ctx: &mut Ctx, rng: &mut ChaCha20Rng) {
    type S = Pst13S<E381>;
    type F = ark_bls12_381::Fr;
    let cfg = S::gen_cfg(rng, false);
    let w = match make_world::<S>(&cfg, rng) {
        Ok(w) => w,
        Err(_) => return ctx.skipped("baseline", "setup/trim refused (reported under C01/C09)"),
    };
    let nv = cfg.num_vars.unwrap();
    let (sp_, sq) = (pick_shape(rng), pick_shape(rng));
    let p = mv_poly::<F>(nv, sp_, below(rng, cfg.supported_degree + 1), rng);
    let q = mv_poly::<F>(nv, sq, below(rng, cfg.supported_degree + 1), rng);
    let (a, b) = (scalar::<F>(rng), scalar::<F>(rng));
    let mut r = MvPoly::<F>::zero();
    r += (a, &p);
    r += (b, &q);
    // same polynomial with its term list permuted
    let mut terms = p.terms().to_vec();
    terms.reverse();
    let p_perm = MvPoly::<F>::from_coefficients_vec(nv, terms);
    let hiding = if rng.next_u32() % 2 == 0 { Some(range(rng, 1, cfg.supported_hiding)) } else { None };
    let polys: Vec<LPoly<S>> = vec![
        LabeledPolynomial::new("p".into(), p.clone(), None, hiding),
        LabeledPolynomial::new("q".into(), q.clone(), None, hiding),
        LabeledPolynomial::new("r".into(), r.clone(), None, None),
        LabeledPolynomial::new("zero".into(), MvPoly::<F>::zero(), None, None),
        LabeledPolynomial::new("pperm".into(), p_perm, None, None),
        LabeledPolynomial::new("pplain".into(), p.clone(), None, None),
    ];
    let desc = json!({"cfg": cfg.json(), "hiding": hiding, "shapes": [format!("{:?}", sp_), format!("{:?}", sq)], "terms": [p.terms().len(), q.terms().len()]});
    let c = match commit::<S>(&w.ck, &polys, rng.next_u64()) {
        Ok(c) => c,
        Err(o) => return ctx.violated("honest-pipeline-refused", "commit", desc, json!({"outcome": o.json()})),
    };
    let image = |f: &MvPoly<F>| {
        let mut acc = <E381 as Pairing>::G1::zero();
        for (co, t) in f.terms() {
            acc += w.pp.powers_of_g[t].mul(*co);
        }
        acc
    };
    let blind = |f: &MvPoly<F>| {
        let mut acc = <E381 as Pairing>::G1::zero();
        for (co, t) in f.terms() {
            let base = if t.is_constant() { w.pp.gamma_g } else { w.pp.powers_of_gamma_g[t.vars()[0]][t.degree() - 1] };
            acc += base.mul(*co);
        }
        acc
    };
    let fs = [&p, &q, &r, &MvPoly::<F>::zero()];
    let mut ok = true;
    for (i, f) in fs.iter().enumerate() {
        let want = image(f) + blind(&c.states[i].blinding_polynomial);
        ok &= want.into_affine() == c.comms[i].commitment().comm.0 && c.comms[i].commitment().shifted_comm.is_none();
    }
    ctx.check(ok, "naive-msm-plain", "commit", desc.clone(), || json!({}));
    ctx.check(c.comms[3].commitment().comm.0.is_zero(), "zero-is-identity", "commit", desc.clone(), || json!({}));
    ctx.check(c.comms[4].commitment().comm.0 == c.comms[5].commitment().comm.0, "term-order-independent", "commit", desc.clone(), || json!({}));
    let mut st = <StateOf<S> as ark_poly_commit::PCCommitmentState>::empty();
    st += (a, &c.states[0]);
    st += (b, &c.states[1]);
    let lhs = c.comms[0].commitment().comm.0.mul(a) + c.comms[1].commitment().comm.0.mul(b);
    let mut okadd = lhs == image(&r) + blind(&st.blinding_polynomial);
    if hiding.is_none() {
        okadd &= lhs.into_affine() == c.comms[2].commitment().comm.0;
    }
    ctx.check(okadd, "additivity", "commit", desc, || json!({}));
}

// ------------------------------------------------------------------ KZG10 core, multilinear PST, streaming

fn kzg10_direct(ctx: &mut Ctx, rng: &mut ChaCha20Rng) {
    use super::offtrait::kzg_world;
    type F = ark_bls12_381::Fr;
    type K = kzg10::KZG10<E381, DensePolynomial<F>>;
    let w = match kzg_world(rng) {
        Ok(w) => w,
        Err(_) => return ctx.skipped("baseline", "setup refused"),
    };
    let powers = w.powers();
    let (sp_, sq) = (pick_shape(rng), pick_shape(rng));
    let p = uni_poly::<F>(sp_, below(rng, w.supported + 1), rng);
    let q = uni_poly::<F>(sq, below(rng, w.supported + 1), rng);
    let (a, b) = (scalar::<F>(rng), scalar::<F>(rng));
    let r = lin(a, &p, b, &q);
    let desc = json!({"max_degree": w.max_degree, "supported": w.supported, "shapes": [format!("{:?}", sp_), format!("{:?}", sq)], "degrees": [p.degree(), q.degree()]});
    let res = attempt(|| -> Result<_, ark_poly_commit::Error> {
        Ok((K::commit(&powers, &p, None, None)?, K::commit(&powers, &q, None, None)?, K::commit(&powers, &r, None, None)?, K::commit(&powers, &DensePolynomial::zero(), None, None)?))
    });
    match res {
        Err(o) => ctx.violated("honest-pipeline-refused", "KZG10::commit", desc, json!({"outcome": o.json()})),
        Ok(((cp, _), (cq, _), (cr, _), (cz, _))) => {
            let g = &w.pp.powers_of_g;
            let ok = naive_msm(&g[..], p.coeffs()).into_affine() == cp.0 && naive_msm(&g[..], q.coeffs()).into_affine() == cq.0;
            ctx.check(ok, "naive-msm-plain", "KZG10::commit", desc.clone(), || json!({}));
            ctx.check(cz.0.is_zero(), "zero-is-identity", "KZG10::commit", desc.clone(), || json!({}));
            let lhs = (cp.0.mul(a) + cq.0.mul(b)).into_affine();
            let mut acc = kzg10::Commitment::<E381>(<E381 as Pairing>::G1Affine::zero());
            acc += (a, &cp);
            acc += (b, &cq);
            ctx.check(lhs == cr.0 && acc.0 == cr.0, "additivity", "KZG10::commit", desc, || json!({"manual": lhs == cr.0, "commitment_add_assign": acc.0 == cr.0}));
        }
    }
}

fn mlpst(ctx: &mut Ctx, rng: &mut ChaCha20Rng) {
    use ark_poly_commit::multilinear_pc::MultilinearPC;
    type F = ark_bls12_381::Fr;
    let nv = if is_large() { range(rng, 10, 11) } else { range(rng, 1, 6) };
    let desc = json!({"nv": nv});
    let r = guard(|| {
        let pp = MultilinearPC::<E381>::setup(nv, rng);
        MultilinearPC::<E381>::trim(&pp, nv)
    });
    let (ck, _vk) = match r {
        Ok(k) => k,
        Err(_) => return ctx.skipped("baseline", "setup refused"),
    };
    let p = ml_poly::<F>(nv, pick_shape(rng), rng);
    let q = ml_poly::<F>(nv, pick_shape(rng), rng);
    let (a, b) = (scalar::<F>(rng), scalar::<F>(rng));
    let rr = DenseMultilinearExtension::from_evaluations_vec(nv, p.evaluations.iter().zip(&q.evaluations).map(|(x, y)| a * x + b * y).collect());
    let zero = DenseMultilinearExtension::from_evaluations_vec(nv, vec![F::zero(); 1 << nv]);
    let res = guard(|| {
        (MultilinearPC::<E381>::commit(&ck, &p), MultilinearPC::<E381>::commit(&ck, &q), MultilinearPC::<E381>::commit(&ck, &rr), MultilinearPC::<E381>::commit(&ck, &zero))
    });
    match res {
        Err(pn) => ctx.violated("honest-pipeline-refused", "MultilinearPC::commit", desc, json!({"panic": pn})),
        Ok((cp, cq, cr, cz)) => {
            let ok = naive_msm(&ck.powers_of_g[0][..], &p.evaluations).into_affine() == cp.g_product && cp.nv == nv;
            ctx.check(ok, "naive-msm-plain", "MultilinearPC::commit", desc.clone(), || json!({}));
            ctx.check(cz.g_product.is_zero(), "zero-is-identity", "MultilinearPC::commit", desc.clone(), || json!({}));
            let lhs = (cp.g_product.mul(a) + cq.g_product.mul(b)).into_affine();
            ctx.check(lhs == cr.g_product, "additivity", "MultilinearPC::commit", desc, || json!({}));
        }
    }
}

fn streaming(ctx: &mut Ctx, rng: &mut ChaCha20Rng) {
    use super::offtrait::{stream_poly, stream_world};
    use ark_poly_commit::streaming_kzg::CommitterKeyStream;
    use ark_std::iterable::Reverse;
    type F = ark_bls12_381::Fr;
    let w = match stream_world(rng, 128) {
        Ok(w) => w,
        Err(_) => return ctx.skipped("baseline", "setup refused"),
    };
    let (p, shape) = stream_poly(&w, rng);
    let (q, _) = stream_poly(&w, rng);
    let (a, b) = (scalar::<F>(rng), scalar::<F>(rng));
    let n = p.len().max(q.len());
    let r: Vec<F> = (0..n).map(|i| a * p.get(i).copied().unwrap_or(F::zero()) + b * q.get(i).copied().unwrap_or(F::zero())).collect();
    let desc = json!({"max_degree": w.max_degree, "lens": [p.len(), q.len()], "shape": format!("{:?}", shape)});
    let res = guard(|| {
        let sck = CommitterKeyStream::from(&w.ck);
        (w.ck.commit(&p), w.ck.commit(&q), w.ck.commit(&r), sck.commit(&Reverse(p.as_slice())), w.ck.commit(&vec![F::zero(); p.len()]))
    });
    match res {
        Err(pn) => ctx.violated("honest-pipeline-refused", "streaming::commit", desc, json!({"panic": pn})),
        Ok((cp, cq, cr, cps, cz)) => {
            let (g1, _) = w.ck.verif_powers();
            let ok = naive_msm(g1, &p).into_affine() == cp.verif_point() && cps.verif_point() == cp.verif_point();
            ctx.check(ok, "naive-msm-plain", "streaming::commit", desc.clone(), || json!({"space_equals_time": cps.verif_point() == cp.verif_point()}));
            ctx.check(cz.verif_point().is_zero(), "zero-is-identity", "streaming::commit", desc.clone(), || json!({}));
            let lhs = (cp.verif_point().mul(a) + cq.verif_point().mul(b)).into_affine();
            ctx.check(lhs == cr.verif_point(), "additivity", "streaming::commit", desc, || json!({}));
        }
    }
}

// ------------------------------------------------------------------ Hyrax

fn hyrax(ctx: &mut Ctx, rng: &mut ChaCha20Rng) {
    type S = HyraxS;
    let cfg = S::gen_cfg(rng, ctx.is_thorough());
    let w = match make_world::<S>(&cfg, rng) {
        Ok(w) => w,
        Err(_) => return ctx.skipped("baseline", "setup/trim refused (reported under C01/C09)"),
    };
    let nv = cfg.num_vars.unwrap();
    let dim = 1usize << (nv / 2);
    let shape = pick_shape(rng);
    let p = ml_poly::<JFr>(nv, shape, rng);
    let polys: Vec<LPoly<S>> = vec![LabeledPolynomial::new("p".into(), p.clone(), None, None)];
    let desc = json!({"nv": nv, "shape": format!("{:?}", shape)});
    let c = match commit::<S>(&w.ck, &polys, rng.next_u64()) {
        Ok(c) => c,
        Err(o) => return ctx.violated("honest-pipeline-refused", "commit", desc, json!({"outcome": o.json()})),
    };
    let st: MHyraxState<JFr> = match convert(&c.states[0]) {
        Ok(s) => s,
        Err(e) => return ctx.violated("state-mirror", "commit", desc, json!({"error": e})),
    };
    let rows = &c.comms[0].commitment().row_coms;
    let ev = p.to_evaluations();
    let mut layout_ok = st.mat.n == dim && st.mat.m == dim && st.randomness.len() == dim && rows.len() == dim;
    if layout_ok {
        for i in 0..dim {
            for j in 0..dim {
                // documented layout: column-major, M[i][j] = evaluations[j * dim + i]
                if st.mat.entries[i][j] != ev[j * dim + i] {
                    layout_ok = false;
                }
            }
        }
    }
    ctx.check(layout_ok, "matrix-layout", "commit", desc.clone(), || json!({"n": st.mat.n, "m": st.mat.m, "rows": rows.len()}));
    if layout_ok {
        let mut ok = true;
        for i in 0..dim {
            let row: Vec<JFr> = (0..dim).map(|j| ev[j * dim + i]).collect();
            let want = naive_msm(&w.pp.com_key[..], &row) + w.pp.h.mul(st.randomness[i]);
            ok &= want.into_affine() == rows[i];
        }
        ctx.check(ok, "naive-msm-plain", "commit", desc, || json!({}));
    }
}

// ------------------------------------------------------------------ Ligero / Brakedown

fn linear_code<S, L>(ctx: &mut Ctx, rng: &mut ChaCha20Rng)
where
    S: Scheme<F = LFr>,
    L: LinearEncode<LFr, MtParams, POf<S>, ColHasher<LFr>, LinCodePCParams = CkOf<S>>,
    CkOf<S>: LinCodeParametersInfo<MtParams, ColHasher<LFr>>,
{
    let cfg = S::gen_cfg(rng, ctx.is_thorough());
    let w = match make_world::<S>(&cfg, rng) {
        Ok(w) => w,
        Err(_) => return ctx.skipped("baseline", "setup/trim refused (reported under C01/C09)"),
    };
    let mut shape = pick_shape(rng);
    let mut deg = if S::KIND == Kind::Univariate { below(rng, cfg.supported_degree + 1) } else { 0 };
    let mut cfg = cfg;
    if S::NAME == "ligero-uni" && !is_large() && rng.next_u32() % 5 == 0 {
        // lengths at which the documented matrix shape changes: 2*len = t * 4^j exactly, and one to either side
        if let Ok(t0) = ark_poly_commit::linear_codes::verif_calculate_t::<LFr>(w.ck.sec_param(), w.ck.distance(), 1 << 30) {
            let base = [2 * t0, 8 * t0][below(rng, 2)];
            let len = base + below(rng, 3) - 1;
            if len >= 2 && len <= 4000 {
                deg = len - 1;
                shape = Shape::Full;
                cfg.max_degree = deg;
                cfg.supported_degree = deg;
            }
        }
    }
    let p = S::gen_poly(&cfg, shape, deg, rng);
    let q = loop {
        let q = S::gen_poly(&cfg, Shape::Full, deg, rng);
        if q != p {
            break q;
        }
    };
    let polys: Vec<LPoly<S>> = vec![
        LabeledPolynomial::new("p".into(), p.clone(), None, None),
        LabeledPolynomial::new("p2".into(), p.clone(), None, None),
        LabeledPolynomial::new("q".into(), q.clone(), None, None),
    ];
    let desc = json!({"cfg": cfg.json(), "shape": format!("{:?}", shape), "degree": p.degree()});
    let c = match commit::<S>(&w.ck, &polys, rng.next_u64()) {
        Ok(c) => c,
        Err(_) => return ctx.skipped("baseline", "honest commit refused (reported under C01/C17)"),
    };
    let cm: Vec<MLinCommitment> = match c.comms.iter().map(|x| convert(x.commitment())).collect::<Result<Vec<_>, _>>() {
        Ok(v) => v,
        Err(e) => return ctx.violated("commitment-mirror", "commit", desc, json!({"error": e})),
    };
    // reference root: coefficients row-major into n_rows x n_cols (dimensions from the commitment metadata and,
    // independently, from the public compute_dimensions), rows encoded with the public `encode`, column j hashed with
    // Blake2s over the canonical serialization of the column vector, Merkle tree re-implemented in the harness.
    let mut coeffs = L::poly_to_vec(&p);
    if coeffs.is_empty() {
        // the zero polynomial is committed as the single coefficient 0
        coeffs.push(LFr::zero());
    }
    let (dr, dc) = match guard(|| w.ck.compute_dimensions(coeffs.len())) {
        Ok(d) => d,
        Err(pn) => return ctx.violated("metadata-dimensions", "compute_dimensions", desc, json!({"panic": pn, "len": coeffs.len()})),
    };
    let md = &cm[0].metadata;
    if S::NAME.starts_with("ligero") {
        // the documented Ligero shape, computed here: t openings for this length, n = the power of two at or above
        // sqrt(ceil(2 len / t)) rounded up, m = ceil(len / n)
        if let Ok(t) = ark_poly_commit::linear_codes::verif_calculate_t::<LFr>(w.ck.sec_param(), w.ck.distance(), coeffs.len()) {
            let q = (2 * coeffs.len() + t - 1) / t;
            let mut s = (q as f64).sqrt() as usize;
            while s * s < q {
                s += 1;
            }
            while s > 0 && (s - 1) * (s - 1) >= q {
                s -= 1;
            }
            let n = s.max(1).next_power_of_two();
            let m = (coeffs.len() + n - 1) / n;
            ctx.check((md.n_rows, md.n_cols) == (n, m), "documented-matrix-shape", "commit", desc.clone(), || json!({"metadata": [md.n_rows, md.n_cols], "documented": [n, m], "len": coeffs.len(), "t": t}));
        }
    }
    let dims_ok = md.n_rows == dr && md.n_cols == dc && dr * dc >= coeffs.len();
    ctx.check(dims_ok, "metadata-dimensions", "commit", desc.clone(), || json!({"metadata": [md.n_rows, md.n_cols, md.n_ext_cols], "compute_dimensions": [dr, dc], "len": coeffs.len()}));
    if !dims_ok {
        return;
    }
    coeffs.resize(dr * dc, LFr::zero());
    let mut ext_rows: Vec<Vec<LFr>> = Vec::new();
    for r in 0..dr {
        match attempt(|| L::encode(&coeffs[r * dc..(r + 1) * dc], &w.ck)) {
            Ok(e) => ext_rows.push(e),
            Err(o) => return ctx.violated("encode-refused", "encode", desc, json!({"outcome": o.json()})),
        }
    }
    if S::NAME.starts_with("ligero") {
        // the Reed-Solomon rows do not come from the library here: row polynomial evaluated (Horner) at the powers
        // of the primitive root of the smallest power-of-two domain with at least n_cols * rho_inv points
        let rho = w.ck.distance().1;
        let n = (dc * rho).next_power_of_two();
        let omega = <LFr as ark_ff::FftField>::get_root_of_unity(n as u64).expect("root of unity");
        let mut own: Vec<Vec<LFr>> = Vec::new();
        for r in 0..dr {
            let row = &coeffs[r * dc..(r + 1) * dc];
            let mut x = LFr::one();
            let mut out = Vec::with_capacity(n);
            for _ in 0..n {
                out.push(row.iter().rev().fold(LFr::zero(), |acc, c| acc * x + c));
                x *= omega;
            }
            own.push(out);
        }
        ctx.check(own == ext_rows, "reed-solomon-rows", "encode", desc.clone(), || json!({"rho_inv": rho, "n_cols": dc, "expected_codeword_length": n, "library_codeword_length": ext_rows[0].len()}));
        ext_rows = own;
    }
    if S::NAME == "brakedown" {
        // the rows re-encoded from the key's sparse matrices and their dimensions alone (not its start / end tables):
        // x_0 | x_1 = x_0 A_0 | ... | base code of x_L | v_{L-1} | ... | v_0, every v_i = (its input window) B_i,
        // in the order the published construction of this library uses (outermost first)
        if let Ok(pm) = convert::<_, crate::mirror::MBrakedownParams<LFr>>(&w.ck) {
            let sp_mul = |mat: &crate::mirror::MSprsMat<LFr>, v: &[LFr]| -> Vec<LFr> {
                (0..mat.m).map(|j| (mat.ind_ptr[j]..mat.ind_ptr[j + 1]).map(|k| v[mat.col_ind[k]] * mat.val[k]).sum::<LFr>()).collect()
            };
            let levels = pm.a_dims.len();
            let mut own: Vec<Vec<LFr>> = Vec::new();
            let mut shape_ok = levels == pm.b_dims.len() && dc == pm.m;
            for r in 0..dr {
                if !shape_ok {
                    break;
                }
                let mut cw = coeffs[r * dc..(r + 1) * dc].to_vec();
                let mut block = 0usize;
                for i in 0..levels {
                    let (rows, cols, _) = pm.a_dims[i];
                    if cw.len() != block + rows || pm.a_mats[i].n != rows || pm.a_mats[i].m != cols {
                        shape_ok = false;
                        break;
                    }
                    let y = sp_mul(&pm.a_mats[i], &cw[block..block + rows]);
                    cw.extend(y);
                    block += rows;
                }
                if !shape_ok {
                    break;
                }
                let (in_len, out_len) = if levels == 0 { (pm.m, pm.m_ext) } else { (pm.a_dims[levels - 1].1, pm.b_dims[levels - 1].0) };
                let mut z = Vec::with_capacity(out_len);
                let mut x = LFr::one();
                for _ in 0..out_len {
                    z.push(cw[block..block + in_len].iter().rev().fold(LFr::zero(), |acc, c| acc * x + c));
                    x += LFr::one();
                }
                cw.resize(pm.m_ext, LFr::zero());
                cw[block..block + out_len].copy_from_slice(&z);
                let (mut hi, mut in_start) = (pm.m_ext, 0usize);
                for i in 0..levels {
                    let (rows, cols, _) = pm.b_dims[i];
                    in_start += pm.a_dims[i].0;
                    let lo = hi - cols;
                    if lo < in_start || lo - in_start != rows {
                        shape_ok = false;
                        break;
                    }
                    let v = sp_mul(&pm.b_mats[i], &cw[in_start..lo]);
                    cw[lo..hi].copy_from_slice(&v);
                    hi = lo;
                }
                own.push(cw);
            }
            ctx.count(&format!("brakedown-recursion-levels:{}", levels), 1);
            ctx.check(shape_ok && own == ext_rows, "brakedown-rows-follow-the-key-matrices", "encode", desc.clone(), || json!({"levels": levels, "shape_consistent": shape_ok, "rows": dr, "m": pm.m, "m_ext": pm.m_ext}));
        }
    }
    let n_ext = ext_rows[0].len();
    let mut leaves: Vec<Vec<u8>> = Vec::new();
    for j in 0..n_ext {
        let col: Vec<LFr> = (0..dr).map(|r| ext_rows[r][j]).collect();
        let mut bytes = Vec::new();
        col.serialize_compressed(&mut bytes).unwrap();
        use digest::Digest;
        leaves.push(blake2::Blake2s256::digest(&bytes).to_vec());
    }
    let root = merkle_root(&leaves);
    ctx.check(root == cm[0].root && md.n_ext_cols == n_ext, "merkle-root-recomputed", "commit", desc.clone(), || json!({"n_ext_cols": [md.n_ext_cols, n_ext], "root_matches": root == cm[0].root}));
    ctx.check(cm[0] == cm[1], "equal-polys-equal-roots", "commit", desc.clone(), || json!({}));
    ctx.check(cm[0].root != cm[2].root, "different-polys-different-roots", "commit", desc, || json!({}));
}

pub fn run(ctx: &mut Ctx) {
    set_custom_params(true);
    let n = ctx.n(160, 3000);
    ctx.run_cases("marlin", n / 2, |ctx, _i, rng| kzg_family::<E381, MarlinS<E381>>(ctx, rng, false));
    ctx.run_cases("sonic", n / 2, |ctx, _i, rng| kzg_family::<E381, SonicS<E381>>(ctx, rng, true));
    ctx.run_cases("ipa", n, |ctx, _i, rng| ipa(ctx, rng));
    ctx.run_cases("pst13", n / 4, |ctx, _i, rng| pst13(ctx, rng));
    ctx.run_cases("kzg10", n, |ctx, _i, rng| kzg10_direct(ctx, rng));
    ctx.run_cases("mlpst", n / 2, |ctx, _i, rng| mlpst(ctx, rng));
    ctx.run_cases("streaming", n, |ctx, _i, rng| streaming(ctx, rng));
    ctx.run_cases("hyrax", n, |ctx, _i, rng| hyrax(ctx, rng));
    ctx.run_cases("ligero-uni", n, |ctx, _i, rng| linear_code::<UniLigeroS, UniLigeroEnc>(ctx, rng));
    ctx.run_cases("ligero-ml", n, |ctx, _i, rng| linear_code::<MlLigeroS, MlLigeroEnc>(ctx, rng));
    ctx.run_cases("brakedown", n / 2, |ctx, _i, rng| linear_code::<BrakedownS, BrakedownEnc>(ctx, rng));
    // the same oracles on polynomials with more than a thousand coefficients
    set_large(true);
    let nl = if ctx.is_thorough() { 8 } else { 3 };
    ctx.run_cases("marlin/large", nl, |ctx, _i, rng| kzg_family::<E381, MarlinS<E381>>(ctx, rng, false));
    ctx.run_cases("sonic/large", nl, |ctx, _i, rng| kzg_family::<E381, SonicS<E381>>(ctx, rng, true));
    ctx.run_cases("ipa/large", nl, |ctx, _i, rng| ipa(ctx, rng));
    ctx.run_cases("pst13/large", nl / 2, |ctx, _i, rng| pst13(ctx, rng));
    ctx.run_cases("kzg10/large", nl, |ctx, _i, rng| kzg10_direct(ctx, rng));
    ctx.run_cases("mlpst/large", nl / 2, |ctx, _i, rng| mlpst(ctx, rng));
    ctx.run_cases("streaming/large", nl, |ctx, _i, rng| streaming(ctx, rng));
    ctx.run_cases("hyrax/large", nl, |ctx, _i, rng| hyrax(ctx, rng));
    ctx.run_cases("ligero-uni/large", nl, |ctx, _i, rng| linear_code::<UniLigeroS, UniLigeroEnc>(ctx, rng));
    ctx.run_cases("ligero-ml/large", nl, |ctx, _i, rng| linear_code::<MlLigeroS, MlLigeroEnc>(ctx, rng));
    ctx.run_cases("brakedown/large", nl + 3, |ctx, _i, rng| linear_code::<BrakedownS, BrakedownEnc>(ctx, rng));
    set_large(false);
    if ctx.is_thorough() {
        ctx.run_cases("marlin-377", n / 4, |ctx, _i, rng| kzg_family::<E377, MarlinS<E377>>(ctx, rng, false));
        ctx.run_cases("sonic-377", n / 4, |ctx, _i, rng| kzg_family::<E377, SonicS<E377>>(ctx, rng, true));
    }
}
