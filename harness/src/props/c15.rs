//! C15 — PST13 parameters cover every monomial; any multivariate polynomial opens.
use crate::rt::{Ctx, Out};
use crate::scen::*;
use crate::schemes::*;
use ark_ec::pairing::Pairing;
use ark_ff::{One, UniformRand};
use ark_poly::multivariate::{SparseTerm, Term};
use ark_poly::Polynomial;
use ark_poly_commit::LabeledPolynomial;
use rand_chacha::ChaCha20Rng;
use rand_core::RngCore;
use serde_json::json;
use std::collections::BTreeSet;

type S = Pst13S<E381>;
type E = E381;
type Fr = ark_bls12_381::Fr;

fn binom(n: usize, k: usize) -> usize {
    let mut r = 1usize;
    for i in 0..k {
        r = r * (n - i) / (i + 1);
    }
    r
}

fn exps(t: &SparseTerm, nv: usize) -> Vec<usize> {
    let mut e = vec![0usize; nv];
    for (v, p) in t.iter() {
        e[*v] += *p;
    }
    e
}

fn cell(ctx: &mut Ctx, nv: usize, d: usize, rng: &mut ChaCha20Rng) {
    let sup = range(rng, 1, d);
    let cfg = Cfg { max_degree: d, num_vars: Some(nv), supported_degree: sup, supported_hiding: sup, enforced: None };
    let desc = json!({"num_vars": nv, "max_degree": d, "supported_degree": sup});
    let w = match make_world::<S>(&cfg, rng) {
        Ok(w) => w,
        Err((st, o)) => return ctx.violated("honest-pipeline-refused", &st, desc, json!({"outcome": o.json()})),
    };
    // ---- combinatorial part: exactly the exponent vectors of total degree <= D
    let mut want: BTreeSet<Vec<usize>> = BTreeSet::new();
    for k in 0..=d {
        for m in monomials_of_degree(nv, k) {
            want.insert(m);
        }
    }
    let got: Vec<Vec<usize>> = w.pp.powers_of_g.keys().map(|t| exps(t, nv)).collect();
    let got_set: BTreeSet<Vec<usize>> = got.iter().cloned().collect();
    let count = binom(nv + d, d);
    let missing: Vec<_> = want.difference(&got_set).take(3).cloned().collect();
    let extra: Vec<_> = got_set.difference(&want).take(3).cloned().collect();
    let ok = got.len() == count && got_set.len() == got.len() && missing.is_empty() && extra.is_empty() && want.len() == count;
    ctx.check(ok, "monomial-set", "setup", desc.clone(), || json!({"published": got.len(), "expected": count, "missing": missing, "extra": extra}));
    // ---- every element is the generator scaled by its monomial at one common trapdoor point:
    // e(G[m * x_i], H) == e(G[m], beta_i H) for every m, i with deg(m x_i) <= D (randomised batching per variable)
    let term = |e: &[usize]| term_of(e);
    let mut bad: Vec<String> = Vec::new();
    let mut pairs = 0u64;
    for i in 0..nv {
        let mut hi = <E as Pairing>::G1::default();
        let mut lo = <E as Pairing>::G1::default();
        let mut list = Vec::new();
        for m in &want {
            if m.iter().sum::<usize>() < d {
                let mut mx = m.clone();
                mx[i] += 1;
                if let (Some(a), Some(b)) = (w.pp.powers_of_g.get(&term(&mx)), w.pp.powers_of_g.get(&term(m))) {
                    let r = Fr::from(u128::rand(rng));
                    hi += *a * r;
                    lo += *b * r;
                    list.push((m.clone(), *a, *b));
                    pairs += 1;
                }
            }
        }
        if <E as Pairing>::pairing(hi, w.pp.h) != <E as Pairing>::pairing(lo, w.pp.beta_h[i]) {
            for (m, a, b) in list {
                if <E as Pairing>::pairing(a, w.pp.h) != <E as Pairing>::pairing(b, w.pp.beta_h[i]) {
                    bad.push(format!("G[{:?} * x_{}]", m, i));
                    if bad.len() > 3 {
                        break;
                    }
                }
            }
        }
    }
    ctx.count("monomial-variable-pairs", pairs);
    ctx.check(bad.is_empty(), "trapdoor-consistency", "setup", desc.clone(), || json!({"inconsistent": bad}));
    // one independent trapdoor per variable: the per-variable G2 elements and the published G1 elements of distinct
    // monomials are pairwise different (equal trapdoors would identify polynomials that differ by a variable exchange)
    {
        let g2: Vec<Vec<u8>> = w.pp.beta_h.iter().map(crate::ju::ser).collect();
        let g1: Vec<Vec<u8>> = w.pp.powers_of_g.values().map(crate::ju::ser).collect();
        let distinct = |v: &Vec<Vec<u8>>| v.iter().collect::<BTreeSet<_>>().len() == v.len();
        ctx.check(distinct(&g2) && distinct(&g1), "trapdoors-independent", "setup", desc.clone(), || json!({"distinct_g2": distinct(&g2), "distinct_g1": distinct(&g1)}));
    }
    // ---- trim keeps exactly the monomials up to the supported degree
    let tgot: BTreeSet<Vec<usize>> = w.ck.powers_of_g.keys().map(|t| exps(t, nv)).collect();
    let twant: BTreeSet<Vec<usize>> = want.iter().filter(|m| m.iter().sum::<usize>() <= sup).cloned().collect();
    let same_vals = w.ck.powers_of_g.iter().all(|(k, v)| w.pp.powers_of_g.get(k) == Some(v));
    ctx.check(tgot == twant && same_vals && w.ck.powers_of_g.len() == binom(nv + sup, sup), "trim-degree-filter", "trim", desc.clone(), || json!({"kept": tgot.len(), "expected": twant.len()}));
    // ---- any polynomial within the supported degree opens: dense and random sparse mixed monomials
    for (shape, hiding) in [(Shape::Full, None), (Shape::Sparse, Some(range(rng, 1, sup))), (Shape::LowZeros, None), (Shape::TopMonomial, Some(1))] {
        let p = mv_poly::<Fr>(nv, shape, sup, rng);
        let mixed = p.terms.iter().any(|(_, t)| t.vars().len() >= 2);
        if mixed {
            ctx.count("polynomials-with-mixed-monomials", 1);
        }
        let lp: LPoly<S> = LabeledPolynomial::new("p".into(), p.clone(), None, hiding);
        let mut dd = desc.clone();
        dd["shape"] = json!(format!("{:?}", shape));
        dd["hiding"] = json!(hiding);
        dd["terms"] = json!(p.terms.len());
        let c = match commit::<S>(&w.ck, std::slice::from_ref(&lp), rng.next_u64()) {
            Ok(c) => c,
            Err(o) => {
                ctx.violated("mixed-monomial-opens", "commit", dd, json!({"outcome": o.json()}));
                continue;
            }
        };
        let z = <S as Scheme>::gen_point(&cfg, rng);
        let v = lp.evaluate(&z);
        let tx = Tx::<S> { w: World { cfg: cfg.clone(), pp: w.pp.clone(), ck: w.ck.clone(), vk: w.vk.clone() }, specs: vec![], polys: vec![lp], c, pre: b"c15".to_vec(), commit_seed: 0 };
        match open::<S>(&tx, &[0], &z, &mut tx.sponge(), 1) {
            Err(o) => ctx.violated("mixed-monomial-opens", "open", dd, json!({"outcome": o.json()})),
            Ok(pf) => {
                let o = check::<S>(&tx.w.vk, &[&tx.c.comms[0]], &z, &[v], &pf, &mut tx.sponge(), 1);
                ctx.check(o == Out::Accept, "mixed-monomial-opens", "check", dd.clone(), || json!({"outcome": o.json()}));
                let o2 = check::<S>(&tx.w.vk, &[&tx.c.comms[0]], &z, &[v + Fr::one()], &pf, &mut tx.sponge(), 1);
                ctx.check(!o2.is_accept(), "mixed-monomial-binding", "check", dd, || json!({"outcome": o2.json()}));
            }
        }
    }
    // ---- several polynomials opened together at one point: mixed shapes including the zero and a constant
    // polynomial in every list position, hiding and not
    {
        let shapes = [Shape::Zero, Shape::Full, Shape::Const, Shape::Sparse];
        let rot = below(rng, shapes.len());
        let polys: Vec<LPoly<S>> = (0..shapes.len())
            .map(|i| {
                let sh = shapes[(i + rot) % shapes.len()];
                let hiding = if rng.next_u32() % 3 == 0 { Some(range(rng, 1, sup)) } else { None };
                LabeledPolynomial::new(format!("p{}", i), mv_poly::<Fr>(nv, sh, sup, rng), None, hiding)
            })
            .collect();
        let mut dd = desc.clone();
        dd["list"] = json!((0..shapes.len()).map(|i| format!("{:?}{}", shapes[(i + rot) % shapes.len()], if polys[i].hiding_bound().is_some() { "+hiding" } else { "" })).collect::<Vec<_>>());
        match commit::<S>(&w.ck, &polys, rng.next_u64()) {
            Err(o) => ctx.violated("polynomial-list-opens", "commit", dd, json!({"outcome": o.json()})),
            Ok(c) => {
                let z = <S as Scheme>::gen_point(&cfg, rng);
                let vals: Vec<Fr> = polys.iter().map(|p| p.evaluate(&z)).collect();
                let tx = Tx::<S> { w: World { cfg: cfg.clone(), pp: w.pp.clone(), ck: w.ck.clone(), vk: w.vk.clone() }, specs: vec![], polys, c, pre: b"c15-list".to_vec(), commit_seed: 0 };
                let idx: Vec<usize> = (0..tx.polys.len()).collect();
                match open::<S>(&tx, &idx, &z, &mut tx.sponge(), 1) {
                    Err(o) => ctx.violated("polynomial-list-opens", "open", dd, json!({"outcome": o.json()})),
                    Ok(pf) => {
                        let comms: Vec<&LComm<S>> = tx.c.comms.iter().collect();
                        let o = check::<S>(&tx.w.vk, &comms, &z, &vals, &pf, &mut tx.sponge(), 1);
                        ctx.check(o == Out::Accept, "polynomial-list-opens", "check", dd.clone(), || json!({"outcome": o.json()}));
                        let mut bad = vals.clone();
                        let k = below(rng, bad.len());
                        bad[k] += Fr::one();
                        let o2 = check::<S>(&tx.w.vk, &comms, &z, &bad, &pf, &mut tx.sponge(), 1);
                        ctx.check(!o2.is_accept(), "polynomial-list-binding", "check", dd, || json!({"outcome": o2.json(), "position": k}));
                    }
                }
            }
        }
    }
}

pub fn run(ctx: &mut Ctx) {
    // grid cells enumerated by case index; thorough: the whole [1,6]^2 grid (exhaustive for the combinatorial part),
    // quick: [1,5]^2 plus three cells with max degree 6 chosen by the seed
    let mut cells: Vec<(usize, usize)> = Vec::new();
    if ctx.is_thorough() {
        for nv in 1..=6 {
            for d in 1..=6 {
                cells.push((nv, d));
            }
        }
    } else {
        for nv in 1..=5 {
            for d in 1..=5 {
                cells.push((nv, d));
            }
        }
        let mut r = ctx.case_rng("grid-extra", 0);
        for _ in 0..3 {
            let nv = range(&mut r, 1, 6);
            let d = 6;
            cells.push((nv, d));
        }
    }
    // beyond the grid: many variables at degree one (word-sized bit masks over variables end at 64 / 128)
    cells.push((66, 1));
    cells.push((130, 1));
    if ctx.is_thorough() {
        cells.push((65, 2));
    }
    let reps = if ctx.is_thorough() { 8 } else { 2 };
    let n = (cells.len() * reps) as u64;
    ctx.note("grid", json!({"cells": cells.len(), "repetitions": reps, "exhaustive_on_1..6x1..6": ctx.is_thorough()}));
    ctx.run_cases("pst13-grid", n, |ctx, i, rng| {
        let (nv, d) = cells[(i as usize) % cells.len()];
        cell(ctx, nv, d, rng)
    });
}
