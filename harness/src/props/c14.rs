//! C14 — streaming KZG: space- and time-efficient provers are interchangeable; folded-polynomial
//! streams enumerate exactly the successive foldings.
use super::offtrait::{eval_le, stream_poly, stream_world, StreamWorld};
use crate::rt::{guard, Ctx};
use crate::schemes::{below, range};
use ark_bls12_381::{Bls12_381 as E, Fr};
use ark_ec::CurveGroup;
use ark_ff::{Field, One, UniformRand, Zero};
use ark_poly_commit::streaming_kzg::{CommitterKeyStream, EvaluationProof, FoldedPolynomialStream, FoldedPolynomialTree, VerifierKey};
use ark_std::iterable::{Iterable, Reverse};
use rand_chacha::ChaCha20Rng;
use rand_core::RngCore;
use serde_json::json;

const BUFS: [usize; 6] = [1, 2, 3, 7, 64, 1 << 20];

/// one folding step on little-endian coefficients: g[i] = f[2i] + c * f[2i+1]
fn fold_le(f: &[Fr], c: Fr) -> Vec<Fr> {
    let n = (f.len() + 1) / 2;
    (0..n).map(|i| f[2 * i] + c * f.get(2 * i + 1).copied().unwrap_or(Fr::zero())).collect()
}

fn be(v: &[Fr]) -> Vec<Fr> {
    v.iter().rev().copied().collect()
}

/// polynomial long division of little-endian f by prod (X - p): (quotient, remainder) little-endian
fn divide(f: &[Fr], pts: &[Fr]) -> (Vec<Fr>, Vec<Fr>) {
    let mut z = vec![Fr::one()];
    for p in pts {
        let mut nz = vec![Fr::zero(); z.len() + 1];
        for (i, c) in z.iter().enumerate() {
            nz[i + 1] += c;
            nz[i] -= *p * c;
        }
        z = nz;
    }
    let d = pts.len();
    let mut r = f.to_vec();
    if r.len() <= d {
        r.resize(d, Fr::zero());
        return (vec![], r);
    }
    let mut q = vec![Fr::zero(); r.len() - d];
    for i in (0..q.len()).rev() {
        let c = r[i + d];
        q[i] = c;
        for (j, zc) in z.iter().enumerate() {
            r[i + j] -= c * zc;
        }
    }
    r.truncate(d);
    (q, r)
}

fn time_space(ctx: &mut Ctx, rng: &mut ChaCha20Rng) {
    let w: StreamWorld = match stream_world(rng, 256) {
        Ok(w) => w,
        Err(_) => return ctx.skipped("baseline", "setup refused"),
    };
    let (mut poly, shape) = stream_poly(&w, rng);
    let buf = BUFS[below(rng, BUFS.len())];
    let mut alpha = Fr::rand(rng);
    // a third of the cases: (polynomial, point) pairs whose quotient by (X - alpha) has zero coefficients
    // strictly inside - the point is 0, 1, -1 or random and 1..3 coefficients are adjusted so that the Horner
    // partial sum from the top vanishes there (random pairs produce such a quotient with probability len/|F|)
    let mut pair = "random";
    if rng.next_u32() % 3 == 0 && poly.len() >= 3 {
        alpha = match rng.next_u32() % 5 {
            0 => Fr::zero(),
            1 => Fr::one(),
            2 => -Fr::one(),
            _ => alpha,
        };
        let n = poly.len();
        if poly[n - 1].is_zero() {
            poly[n - 1] = Fr::rand(rng);
        }
        let hits = 1 + below(rng, 3);
        for _ in 0..hits {
            // quotient coefficient q_j = sum_{i > j} c_i alpha^(i-j-1); make q_j zero for some 0 <= j <= n-3 by fixing c_{j+1}
            let j = below(rng, n - 2);
            let mut acc = Fr::zero();
            for i in (j + 2..n).rev() {
                acc = acc * alpha + poly[i];
            }
            poly[j + 1] = -(acc * alpha);
        }
        pair = "vanishing-quotient-coefficients";
    }
    ctx.count(&format!("single-point-pair:{}", pair), 1);
    let desc = json!({"max_degree": w.max_degree, "len": poly.len(), "shape": format!("{:?}", shape), "msm_buffer": buf, "pair": pair});
    let res = guard(|| {
        let sck = CommitterKeyStream::from(&w.ck);
        let st = Reverse(poly.as_slice());
        (w.ck.commit(&poly), sck.commit(&st), w.ck.open(&poly, &alpha), sck.open(&st, &alpha, buf), VerifierKey::from(&sck))
    });
    let (ct, cs, (et, pt), (es, ps), svk) = match res {
        Ok(x) => x,
        Err(p) => return ctx.violated("honest-pipeline-refused", "streaming::open", desc, json!({"panic": p})),
    };
    let truth = eval_le(&poly, &alpha);
    ctx.check(ct == cs, "commit-time-equals-space", "streaming::commit", desc.clone(), || json!({}));
    ctx.check(et == es && et == truth && pt == ps, "open-time-equals-space", "streaming::open", desc.clone(), || json!({"evaluation_equal": et == es, "evaluation_true": et == truth, "proof_equal": pt == ps}));
    let ok = guard(|| w.vk.verify(&cs, &alpha, &es, &ps).is_ok() && svk.verify(&cs, &alpha, &es, &ps).is_ok());
    let bad = guard(|| w.vk.verify(&cs, &alpha, &(es + Fr::one()), &ps).is_ok() || svk.verify(&cs, &alpha, &(es + Fr::one()), &ps).is_ok());
    ctx.check(ok == Ok(true) && bad != Ok(true), "space-proof-verifies", "streaming::verify", desc.clone(), || json!({"true_value": format!("{:?}", ok), "false_value": format!("{:?}", bad)}));
    // multi-point
    let npts = range(rng, 1, w.max_pts.min(poly.len().max(1)));
    let mut pts: Vec<Fr> = Vec::new();
    while pts.len() < npts {
        let x = Fr::rand(rng);
        if !pts.contains(&x) {
            pts.push(x);
        }
    }
    // structured point sets: the vanishing polynomial then has zero coefficients between its ends
    // ({a,-a}: x^2 - a^2; {a,b,-(a+b)}: no x^2 term; {a,b,-ab/(a+b)}: no x term; a coset of the n-th roots of unity: x^n - a^n)
    let mut structure = "random";
    if npts >= 2 && rng.next_u32() % 3 == 0 {
        let (a, b) = (Fr::rand(rng), Fr::rand(rng));
        let cand: Vec<Fr> = match rng.next_u32() % 4 {
            0 => {
                structure = "opposite-pair";
                vec![a, -a]
            }
            1 if npts >= 3 => {
                structure = "three-summing-to-zero";
                vec![a, b, -(a + b)]
            }
            2 if npts >= 3 && !(a + b).is_zero() => {
                structure = "three-with-zero-pair-sum";
                vec![a, b, -(a * b) * (a + b).inverse().unwrap()]
            }
            _ => {
                structure = "coset-of-roots-of-unity";
                let n = if npts.is_power_of_two() { npts } else { npts.next_power_of_two() / 2 };
                let omega = <Fr as ark_ff::FftField>::get_root_of_unity(n as u64).unwrap();
                let mut v = vec![a];
                for i in 1..n {
                    let nx = v[i - 1] * omega;
                    v.push(nx);
                }
                v
            }
        };
        let distinct = cand.iter().enumerate().all(|(i, x)| !cand[..i].contains(x));
        if distinct && cand.len() <= npts {
            pts = cand;
        } else {
            structure = "random";
        }
    }
    let npts = pts.len();
    if poly.len() < npts {
        return ctx.skipped("multi-point-time-equals-space", "polynomial shorter than the number of points");
    }
    ctx.count(&format!("point-set:{}", structure), 1);
    let mdesc = json!({"max_degree": w.max_degree, "len": poly.len(), "npoints": npts, "msm_buffer": buf, "point_set": structure});
    let res = guard(|| {
        let sck = CommitterKeyStream::from(&w.ck);
        let st = Reverse(poly.as_slice());
        (w.ck.open_multi_points(&poly, &pts), sck.open_multi_points(&st, &pts, buf))
    });
    match res {
        Err(p) => ctx.violated("honest-pipeline-refused", "streaming::open_multi_points", mdesc, json!({"panic": p})),
        Ok((tp, (rem_be, sp))) => {
            let (q, r) = divide(&poly, &pts);
            let (g1, _) = w.ck.verif_powers();
            let want = EvaluationProof::<E>(crate::oracle::naive_msm(g1, &q).into_affine());
            let rem_le = be(&rem_be);
            let rem_ok = rem_le.len() == npts && rem_le == r && pts.iter().all(|x| eval_le(&rem_le, x) == eval_le(&poly, x));
            ctx.check(tp == sp && sp == want && rem_ok, "multi-point-time-equals-space", "streaming::open_multi_points", mdesc.clone(), || json!({"proofs_equal": tp == sp, "proof_is_commitment_to_quotient": sp == want, "remainder_ok": rem_ok}));
            let evals = vec![pts.iter().map(|x| eval_le(&poly, x)).collect::<Vec<_>>()];
            let eta = Fr::rand(rng);
            let ok = guard(|| w.vk.verify_multi_points(&[cs], &pts, &evals, &sp, &eta).is_ok());
            let mut e2 = evals.clone();
            e2[0][0] += Fr::one();
            let bad = guard(|| w.vk.verify_multi_points(&[cs], &pts, &e2, &sp, &eta).is_ok());
            ctx.check(ok == Ok(true) && bad != Ok(true), "space-proof-verifies", "streaming::verify_multi_points", mdesc, || json!({"true_values": format!("{:?}", ok), "false_value": format!("{:?}", bad)}));
        }
    }
}

/// batch entry points of the time prover and the key conversions: batch_commit / batch_open_multi_points
/// against the space prover run polynomial by polynomial and against naive references;
/// `as_committer_key` and `index_by` against their defining sums over the published powers.
fn batch_and_keys(ctx: &mut Ctx, rng: &mut ChaCha20Rng) {
    let w: StreamWorld = match stream_world(rng, 256) {
        Ok(w) => w,
        Err(_) => return ctx.skipped("baseline", "setup refused"),
    };
    let npolys = range(rng, 1, 4);
    let polys: Vec<Vec<Fr>> = (0..npolys).map(|_| stream_poly(&w, rng).0).collect();
    let buf = BUFS[below(rng, BUFS.len())];
    let eta: Fr = match rng.next_u32() % 8 {
        0 => Fr::one(),
        1 => Fr::zero(),
        2 | 3 => (rng.next_u64() as u128 | ((rng.next_u64() as u128) << 64)).into(),
        _ => Fr::rand(rng),
    };
    let npts = range(rng, 1, w.max_pts);
    let mut pts: Vec<Fr> = Vec::new();
    while pts.len() < npts {
        let x = Fr::rand(rng);
        if !pts.contains(&x) {
            pts.push(x);
        }
    }
    let lens: Vec<usize> = polys.iter().map(|p| p.len()).collect();
    let desc = json!({"max_degree": w.max_degree, "lens": lens, "npoints": npts, "msm_buffer": buf,
        "eta": if eta.is_one() { "one" } else if eta.is_zero() { "zero" } else { "random" }});
    let (g1, g2) = {
        let (a, b) = w.ck.verif_powers();
        (a.to_vec(), b.to_vec())
    };
    let res = guard(|| {
        let sck = CommitterKeyStream::from(&w.ck);
        let tc = w.ck.batch_commit(&polys);
        let sc: Vec<_> = polys.iter().map(|p| sck.commit(&Reverse(p.as_slice()))).collect();
        let refs: Vec<&Vec<Fr>> = polys.iter().collect();
        let tp = w.ck.batch_open_multi_points(&refs, &pts, &eta);
        // per-polynomial proofs of the space prover (time prover for polynomials shorter than the point set)
        let sp: Vec<EvaluationProof<E>> = polys
            .iter()
            .map(|p| if p.len() > pts.len() { sck.open_multi_points(&Reverse(p.as_slice()), &pts, buf).1 } else { w.ck.open_multi_points(p, &pts) })
            .collect();
        (tc, sc, tp, sp)
    });
    let (tc, sc, tp, sp) = match res {
        Ok(x) => x,
        Err(p) => return ctx.violated("honest-pipeline-refused", "streaming::batch_open_multi_points", desc, json!({"panic": p})),
    };
    let naive_c: Vec<_> = polys.iter().map(|p| crate::oracle::naive_msm(&g1, p).into_affine()).collect();
    let commits_ok = tc.len() == npolys && (0..npolys).all(|i| tc[i] == sc[i] && tc[i].verif_point() == naive_c[i]);
    ctx.check(commits_ok, "batch-commit-time-equals-space", "streaming::batch_commit", desc.clone(), || json!({"n": tc.len()}));
    // sum_i eta^i p_i, its quotient by the vanishing polynomial, and the same combination of the single proofs
    let maxlen = lens.iter().copied().max().unwrap_or(0);
    let mut comb = vec![Fr::zero(); maxlen];
    let mut e = Fr::one();
    let mut acc = <E as ark_ec::pairing::Pairing>::G1::zero();
    for (p, pf) in polys.iter().zip(&sp) {
        for (j, c) in p.iter().enumerate() {
            comb[j] += e * c;
        }
        acc += pf.0 * e;
        e *= eta;
    }
    let (q, _r) = divide(&comb, &pts);
    let want = EvaluationProof::<E>(crate::oracle::naive_msm(&g1, &q).into_affine());
    let comb_sp = EvaluationProof::<E>(acc.into_affine());
    ctx.check(tp == want && tp == comb_sp, "batch-open-equals-combination", "streaming::batch_open_multi_points", desc.clone(), || json!({"equals_naive_quotient": tp == want, "equals_combined_space_proofs": tp == comb_sp}));
    let evals: Vec<Vec<Fr>> = polys.iter().map(|p| pts.iter().map(|x| eval_le(p, x)).collect()).collect();
    let ok = guard(|| w.vk.verify_multi_points(&sc, &pts, &evals, &comb_sp, &eta).is_ok());
    // a false value at a position whose weight eta^i is non-zero
    let i_bad = if eta.is_zero() { 0 } else { below(rng, npolys) };
    let mut e2 = evals.clone();
    e2[i_bad][below(rng, npts)] += Fr::one();
    let bad = guard(|| w.vk.verify_multi_points(&sc, &pts, &e2, &comb_sp, &eta).is_ok());
    ctx.check(ok == Ok(true) && bad != Ok(true), "space-proof-verifies", "streaming::verify_multi_points[batch]", desc.clone(), || json!({"true_values": format!("{:?}", ok), "false_value": format!("{:?}", bad), "position": i_bad}));
    // key conversions
    let d = range(rng, 1, g1.len());
    let kd = guard(|| {
        let sck = CommitterKeyStream::from(&w.ck);
        let k = sck.as_committer_key(d);
        let (a, b) = k.verif_powers();
        (a.to_vec(), b.to_vec())
    });
    let mut kdesc = desc.clone();
    kdesc["as_committer_key"] = json!(d);
    match kd {
        Err(p) => ctx.violated("key-conversion", "streaming::as_committer_key", kdesc, json!({"panic": p})),
        Ok((a, b)) => ctx.check(a[..] == g1[..d] && b == g2, "key-conversion", "streaming::as_committer_key", kdesc, || json!({"g1_len": a.len(), "g2_len": b.len()})),
    }
    let n = g1.len();
    let m = range(rng, 0, n);
    let span = if rng.next_u32() % 2 == 0 { n } else { 1 + below(rng, n.min(4)) };
    let indices: Vec<usize> = (0..m).map(|_| below(rng, span)).collect();
    let ik = guard(|| {
        let k = w.ck.index_by(&indices);
        let (a, b) = k.verif_powers();
        (a.to_vec(), b.to_vec())
    });
    let mut idesc = desc;
    idesc["index_by"] = json!({"indices": m, "span": span});
    match ik {
        Err(p) => ctx.violated("key-conversion", "streaming::index_by", idesc, json!({"panic": p})),
        Ok((a, b)) => {
            let mut wantv = vec![<E as ark_ec::pairing::Pairing>::G1::zero(); n];
            for (j, &i) in indices.iter().enumerate() {
                wantv[i] += g1[j];
            }
            let good = a.len() == n && (0..n).all(|i| a[i] == wantv[i].into_affine()) && b == g2;
            ctx.check(good, "key-conversion", "streaming::index_by", idesc, || json!({"g1_len": a.len()}));
        }
    }
}

fn folding_iterators(ctx: &mut Ctx, idx: u64, rng: &mut ChaCha20Rng) {
    // lengths 1..130 and 0..7 challenges are covered systematically by the case index
    let len = 1 + (idx % 130) as usize;
    let k = ((idx / 130) % 8) as usize;
    let f: Vec<Fr> = (0..len).map(|_| if rng.next_u32() % 6 == 0 { Fr::zero() } else { Fr::rand(rng) }).collect();
    let ch: Vec<Fr> = (0..k).map(|_| if rng.next_u32() % 8 == 0 { Fr::one() } else { Fr::rand(rng) }).collect();
    let desc = json!({"len": len, "challenges": k});
    let mut levels: Vec<Vec<Fr>> = vec![f.clone()];
    for c in &ch {
        let nxt = fold_le(levels.last().unwrap(), *c);
        levels.push(nxt);
    }
    let stream_be = be(&f);
    let s = stream_be.as_slice();
    let res = guard(|| {
        let fs = FoldedPolynomialStream::new(&s, ch.as_slice());
        let items: Vec<Fr> = fs.iter().collect();
        let l = fs.len();
        let tree = FoldedPolynomialTree::new(&s, ch.as_slice());
        let titems: Vec<(usize, Fr)> = tree.iter().collect();
        (items, l, titems, tree.depth(), Iterable::len(&tree))
    });
    match res {
        Err(p) => ctx.violated("folded-stream", "FoldedPolynomialStream", desc, json!({"panic": p})),
        Ok((items, l, titems, depth, tlen)) => {
            let want = be(&levels[k]);
            ctx.check(items == want && l == want.len(), "folded-stream", "FoldedPolynomialStream", desc.clone(), || json!({"items": items.len(), "len()": l, "expected": want.len(), "values_equal": items == want}));
            let mut ok = depth == k && tlen == len;
            for i in 1..=k {
                let got: Vec<Fr> = titems.iter().filter(|(lv, _)| *lv == i).map(|(_, c)| *c).collect();
                ok &= got == be(&levels[i]);
            }
            ok &= titems.iter().all(|(lv, _)| *lv >= 1 && *lv <= k);
            ctx.check(ok, "folded-tree", "FoldedPolynomialTree", desc, || json!({"items": titems.len(), "depth": depth}));
        }
    }
}

fn folding_commit_open(ctx: &mut Ctx, rng: &mut ChaCha20Rng) {
    // one case in twelve: the smallest keys (one or two powers), where a folded polynomial exactly fills the key
    let tiny = !crate::schemes::is_large() && rng.next_u32() % 12 == 0;
    let tiny_deg = below(rng, 2);
    let w = match if tiny { super::offtrait::stream_world_deg(rng, tiny_deg) } else { stream_world(rng, 128) } {
        Ok(w) => w,
        Err(_) => return ctx.skipped("baseline", "setup refused"),
    };
    let len = range(rng, 1, w.max_degree + 1);
    let k = range(rng, 1, 5);
    let mut f: Vec<Fr> = (0..len).map(|_| Fr::rand(rng)).collect();
    // zero runs: aligned zero pairs / blocks fold to zero coefficients, zero-padded high or low ends, sparse inputs
    match rng.next_u32() % 5 {
        0 => {}
        1 => {
            for _ in 0..range(rng, 1, 4) {
                let blk = 1usize << range(rng, 1, 3);
                let start = (below(rng, len) / blk) * blk;
                for x in f.iter_mut().skip(start).take(blk) {
                    *x = Fr::zero();
                }
            }
        }
        2 => {
            let keep = below(rng, len) + 1;
            for x in f.iter_mut().skip(keep) {
                *x = Fr::zero();
            }
        }
        3 => {
            let skip = below(rng, len);
            for x in f.iter_mut().take(skip) {
                *x = Fr::zero();
            }
        }
        _ => {
            for x in f.iter_mut() {
                if rng.next_u32() % 4 != 0 {
                    *x = Fr::zero();
                }
            }
        }
    }
    let ch: Vec<Fr> = (0..k).map(|_| Fr::rand(rng)).collect();
    let etas: Vec<Fr> = (0..k).map(|_| Fr::rand(rng)).collect();
    let buf = [64usize, 1 << 10, 1 << 20][below(rng, 3)];
    let mut levels: Vec<Vec<Fr>> = vec![f.clone()];
    for c in &ch {
        let nxt = fold_le(levels.last().unwrap(), *c);
        levels.push(nxt);
    }
    let desc = json!({"max_degree": w.max_degree, "len": len, "challenges": k, "msm_buffer": buf});
    let stream_be = be(&f);
    let s = stream_be.as_slice();
    // (a) the folded stream handed to the space committer / prover equals the time prover on the explicit fold
    let alpha = Fr::rand(rng);
    let res = guard(|| {
        let sck = CommitterKeyStream::from(&w.ck);
        let fs = FoldedPolynomialStream::new(&s, ch.as_slice());
        (sck.commit(&fs), sck.open(&fs, &alpha, buf), w.ck.commit(&levels[k]), w.ck.open(&levels[k], &alpha))
    });
    match res {
        Err(p) => ctx.violated("folded-stream-commit", "streaming::commit", desc.clone(), json!({"panic": p})),
        Ok((cs, (es, ps), ct, (et, pt))) => {
            ctx.check(cs == ct && es == et && ps == pt, "folded-stream-commit", "streaming::commit", desc.clone(), || json!({"commit_equal": cs == ct, "evaluation_equal": es == et, "proof_equal": ps == pt}));
        }
    }
    // (b) commit_folding: one commitment per level
    let res = guard(|| {
        let sck = CommitterKeyStream::from(&w.ck);
        let tree = FoldedPolynomialTree::new(&s, ch.as_slice());
        sck.commit_folding(&tree, buf)
    });
    match res {
        Err(p) => ctx.violated("commit-folding", "streaming::commit_folding", desc.clone(), json!({"panic": p})),
        Ok(cs) => {
            let want: Vec<_> = (1..=k).map(|i| w.ck.commit(&levels[i])).collect();
            ctx.check(cs == want, "commit-folding", "streaming::commit_folding", desc.clone(), || json!({"levels": cs.len()}));
        }
    }
    // (c) open_folding against the time prover on explicitly folded polynomials
    let npts = range(rng, 1, w.max_pts.min(3));
    let mut pts: Vec<Fr> = Vec::new();
    while pts.len() < npts {
        let x = Fr::rand(rng);
        if !pts.contains(&x) {
            pts.push(x);
        }
    }
    let res = guard(|| {
        let sck = CommitterKeyStream::from(&w.ck);
        let tree = FoldedPolynomialTree::new(&s, ch.as_slice());
        sck.open_folding(tree, &pts, &etas, buf)
    });
    match res {
        Err(p) => ctx.violated("open-folding", "streaming::open_folding", desc, json!({"panic": p, "npoints": npts})),
        Ok((rems, proof)) => {
            let (g1, _) = w.ck.verif_powers();
            let mut acc = <E as ark_ec::pairing::Pairing>::G1::zero();
            let mut rem_ok = rems.len() == k;
            for i in 1..=k {
                let (q, r) = divide(&levels[i], &pts);
                acc += crate::oracle::naive_msm(g1, &q.iter().map(|c| *c * etas[i - 1]).collect::<Vec<_>>());
                if rem_ok {
                    let got = be(&rems[i - 1]);
                    rem_ok &= got == r;
                }
            }
            let want = EvaluationProof::<E>(acc.into_affine());
            let mut d = desc.clone();
            d["npoints"] = json!(npts);
            ctx.check(proof == want && rem_ok, "open-folding", "streaming::open_folding", d, || json!({"proof_equal": proof == want, "remainders_ok": rem_ok}));
        }
    }
}

pub fn run(ctx: &mut Ctx) {
    let n = ctx.n(200, 4000);
    ctx.run_cases("time-vs-space", n, |ctx, _i, rng| time_space(ctx, rng));
    ctx.run_cases("batch-and-keys", n, |ctx, _i, rng| batch_and_keys(ctx, rng));
    // 130 lengths x 8 challenge counts = 1040 systematic cells; the thorough tier repeats them with fresh values
    let cells = if ctx.is_thorough() { 1040 * 6 } else { 1040 };
    ctx.run_cases("folding-iterators", cells, |ctx, i, rng| folding_iterators(ctx, i, rng));
    ctx.run_cases("folding-commit-open", n, |ctx, _i, rng| folding_commit_open(ctx, rng));
    // polynomials with more than a thousand coefficients
    crate::schemes::set_large(true);
    let nl = if ctx.is_thorough() { 10 } else { 4 };
    ctx.run_cases("time-vs-space/large", nl, |ctx, _i, rng| time_space(ctx, rng));
    ctx.run_cases("batch-and-keys/large", nl, |ctx, _i, rng| batch_and_keys(ctx, rng));
    ctx.run_cases("folding-commit-open/large", nl, |ctx, _i, rng| folding_commit_open(ctx, rng));
    crate::schemes::set_large(false);
}
