//! C02 — evaluation binding: an honest proof never carries a false claim.
use crate::for_each_scheme;
use crate::rt::{Ctx, Out};
use crate::scen::*;
use crate::schemes::{below, range, Scheme};
use ark_ff::{Field, One, UniformRand, Zero};
use ark_poly::Polynomial;
use ark_poly_commit::{Evaluations, LabeledPolynomial, QuerySet};
use rand_chacha::ChaCha20Rng;
use rand_core::RngCore;
use serde_json::json;

pub fn delta<F: Field + UniformRand>(kind: u32, v: F, rng: &mut impl RngCore) -> (F, &'static str) {
    match kind % 4 {
        0 => (F::one(), "+1"),
        1 => (-F::one(), "-1"),
        2 if !v.is_zero() => (-v, "-value"),
        _ => loop {
            let d = F::rand(rng);
            if !d.is_zero() {
                return (d, "random");
            }
        },
    }
}

fn expect_not_accept(ctx: &mut Ctx, o: &Out, class: &str, entry: &str, desc: serde_json::Value) {
    ctx.count(&format!("outcome:{}:{}", entry, o.tag()), 1);
    ctx.check(!o.is_accept(), class, entry, desc, || json!({"outcome": o.json(), "expected": "reject | err | panic"}));
}

fn case<S: Scheme>(ctx: &mut Ctx, rng: &mut ChaCha20Rng) {
    let thorough = ctx.is_thorough();
    let tx = match gen_tx::<S>(rng, thorough, 4) {
        Ok(t) => t,
        Err(_) => {
            ctx.skipped("baseline", "honest pipeline refused (reported under C01/C17)");
            return;
        }
    };
    let k = range(rng, 1, 3);
    let q = gen_queries::<S>(&tx.w.cfg, &tx.polys, k, rng);
    let ident: Vec<usize> = (0..tx.polys.len()).collect();
    let mut sp = tx.sponge();
    let proof = match batch_open::<S>(&tx, &ident, &q.qs, &mut sp, rng.next_u64()) {
        Ok(p) => p,
        Err(_) => {
            ctx.skipped("baseline", "honest batch_open refused (reported under C01)");
            return;
        }
    };
    let base = batch_check::<S>(&tx.w.vk, &tx.c.comms, &q.qs, &q.evals, &proof, &mut tx.sponge(), rng.next_u64());
    if base != Out::Accept {
        ctx.skipped("baseline", "honest batch not accepted (reported under C01)");
        return;
    }
    let txj = tx.json();
    // ---- (a) value perturbation at positions of the batch
    let keys: Vec<_> = q.evals.keys().cloned().collect();
    let npos = keys.len().min(if thorough { 16 } else { 12 });
    let start = below(rng, keys.len());
    for t in 0..npos {
        let key = &keys[(start + t) % keys.len()];
        let v = q.evals[key];
        let (d, dname) = delta::<FOf<S>>(rng.next_u32(), v, rng);
        let mut ev = q.evals.clone();
        ev.insert(key.clone(), v + d);
        let o = batch_check::<S>(&tx.w.vk, &tx.c.comms, &q.qs, &ev, &proof, &mut tx.sponge(), rng.next_u64());
        expect_not_accept(ctx, &o, "value-perturbed", "batch_check",
            json!({"tx": txj, "queries": q.json(), "poly": key.0, "delta": dname, "position": (start + t) % keys.len()}));
    }
    // ---- (a') the false value is the value claimed for a neighbouring polynomial at the same point
    for g in q.groups.iter().filter(|g| g.2.len() >= 2) {
        let i = below(rng, g.2.len());
        for j in [i.wrapping_sub(1), i + 1] {
            if j >= g.2.len() {
                continue;
            }
            let (ki, kj) = ((g.2[i].clone(), g.1.clone()), (g.2[j].clone(), g.1.clone()));
            if q.evals[&ki] == q.evals[&kj] {
                continue;
            }
            let mut ev = q.evals.clone();
            ev.insert(ki.clone(), q.evals[&kj]);
            // the same (label, point value) may be queried under another point label; the claim is false there too
            let o = batch_check::<S>(&tx.w.vk, &tx.c.comms, &q.qs, &ev, &proof, &mut tx.sponge(), rng.next_u64());
            expect_not_accept(ctx, &o, "value-perturbed", "batch_check",
                json!({"tx": txj, "queries": q.json(), "poly": ki.0, "delta": "value-of-neighbour", "neighbour": kj.0, "position": i}));
        }
    }
    // ---- (b) point replaced under one point label
    {
        let gi = below(rng, q.groups.len());
        let (pl, z, labels) = &q.groups[gi];
        let z2 = S::other_point(&tx.w.cfg, z, rng);
        let claim_false = &z2 != z && labels.iter().any(|l| {
            let p = &tx.polys[tx.idx_of(l)];
            p.evaluate(&z2) != p.evaluate(z)
        });
        if !claim_false {
            ctx.skipped("point-replaced", "perturbed claim is still true (constant polynomials / no other point)");
        } else {
            let mut qs2 = QuerySet::new();
            for (l, (plab, pt)) in &q.qs {
                if plab == pl {
                    qs2.insert((l.clone(), (plab.clone(), z2.clone())));
                } else {
                    qs2.insert((l.clone(), (plab.clone(), pt.clone())));
                }
            }
            // evaluations: claimed values stay the old ones, now keyed by the new point;
            // entries of other labels that share the old point value are kept.
            let mut ev2: Evaluations<PtOf<S>, FOf<S>> = q.evals.clone();
            for l in labels {
                let v = q.evals[&(l.clone(), z.clone())];
                if !ev2.contains_key(&(l.clone(), z2.clone())) {
                    ev2.insert((l.clone(), z2.clone()), v);
                }
            }
            let o = batch_check::<S>(&tx.w.vk, &tx.c.comms, &qs2, &ev2, &proof, &mut tx.sponge(), rng.next_u64());
            expect_not_accept(ctx, &o, "point-replaced", "batch_check", json!({"tx": txj, "queries": q.json(), "point_label": pl}));
        }
    }
    // ---- (c) commitment to a different polynomial in place of the original
    {
        let i = below(rng, tx.polys.len());
        let orig = &tx.polys[i];
        let spec = &tx.specs[i];
        let qpoly = S::gen_poly(&tx.w.cfg, crate::schemes::Shape::Full, spec.deg.min(spec.bound.unwrap_or(usize::MAX)), rng);
        let lq: LPoly<S> = LabeledPolynomial::new(orig.label().clone(), qpoly, spec.bound, spec.hiding);
        let queried: Vec<&PtOf<S>> = q.groups.iter().filter(|g| g.2.contains(orig.label())).map(|g| &g.1).collect();
        let differs = queried.iter().any(|z| lq.evaluate(z) != orig.evaluate(z));
        if queried.is_empty() || !differs {
            ctx.skipped("commitment-replaced", "replacement agrees on all queried points / polynomial not queried");
        } else {
            match commit::<S>(&tx.w.ck, std::slice::from_ref(&lq), rng.next_u64()) {
                Err(_) => ctx.skipped("commitment-replaced", "replacement commit refused"),
                Ok(cq) => {
                    let mut comms = tx.c.comms.clone();
                    comms[i] = cq.comms[0].clone();
                    let o = batch_check::<S>(&tx.w.vk, &comms, &q.qs, &q.evals, &proof, &mut tx.sponge(), rng.next_u64());
                    expect_not_accept(ctx, &o, "commitment-replaced", "batch_check", json!({"tx": txj, "queries": q.json(), "replaced": orig.label()}));
                }
            }
        }
    }
    // ---- single `check`: value, point, commitment
    let g = &q.groups[below(rng, q.groups.len())];
    let idx: Vec<usize> = g.2.iter().map(|l| tx.idx_of(l)).collect();
    let z = g.1.clone();
    let values: Vec<FOf<S>> = idx.iter().map(|&i| tx.polys[i].evaluate(&z)).collect();
    let sproof = match open::<S>(&tx, &idx, &z, &mut tx.sponge(), rng.next_u64()) {
        Ok(p) => p,
        Err(_) => {
            ctx.skipped("baseline", "honest open refused (reported under C01)");
            return;
        }
    };
    let comms: Vec<&LComm<S>> = idx.iter().map(|&i| &tx.c.comms[i]).collect();
    if check::<S>(&tx.w.vk, &comms, &z, &values, &sproof, &mut tx.sponge(), 1) != Out::Accept {
        ctx.skipped("baseline", "honest single proof not accepted (reported under C01)");
        return;
    }
    let sdesc = json!({"tx": txj, "polys": g.2, "point": S::point_json(&z)});
    for pos in 0..values.len().min(3) {
        let (d, dname) = delta::<FOf<S>>(rng.next_u32(), values[pos], rng);
        let mut vs = values.clone();
        vs[pos] += d;
        let o = check::<S>(&tx.w.vk, &comms, &z, &vs, &sproof, &mut tx.sponge(), 2);
        let mut dj = sdesc.clone();
        dj["position"] = json!(pos);
        dj["delta"] = json!(dname);
        expect_not_accept(ctx, &o, "value-perturbed", "check", dj);
    }
    for pos in 0..values.len() {
        for j in [pos.wrapping_sub(1), pos + 1] {
            if j >= values.len() || values[j] == values[pos] {
                continue;
            }
            let mut vs = values.clone();
            vs[pos] = values[j];
            let o = check::<S>(&tx.w.vk, &comms, &z, &vs, &sproof, &mut tx.sponge(), 5);
            let mut dj = sdesc.clone();
            dj["position"] = json!(pos);
            dj["delta"] = json!("value-of-neighbour");
            dj["neighbour_position"] = json!(j);
            expect_not_accept(ctx, &o, "value-perturbed", "check", dj);
        }
    }
    {
        let z2 = S::other_point(&tx.w.cfg, &z, rng);
        let claim_false = z2 != z && idx.iter().any(|&i| tx.polys[i].evaluate(&z2) != tx.polys[i].evaluate(&z));
        if claim_false {
            let o = check::<S>(&tx.w.vk, &comms, &z2, &values, &sproof, &mut tx.sponge(), 3);
            expect_not_accept(ctx, &o, "point-replaced", "check", sdesc.clone());
        } else {
            ctx.skipped("point-replaced", "perturbed claim is still true (constant polynomials / no other point)");
        }
    }
    {
        let j = below(rng, idx.len());
        let i = idx[j];
        let spec = &tx.specs[i];
        let qpoly = S::gen_poly(&tx.w.cfg, crate::schemes::Shape::Full, spec.deg.min(spec.bound.unwrap_or(usize::MAX)), rng);
        let lq: LPoly<S> = LabeledPolynomial::new(tx.polys[i].label().clone(), qpoly, spec.bound, spec.hiding);
        if lq.evaluate(&z) == values[j] {
            ctx.skipped("commitment-replaced", "replacement agrees on all queried points / polynomial not queried");
        } else if let Ok(cq) = commit::<S>(&tx.w.ck, std::slice::from_ref(&lq), rng.next_u64()) {
            let mut cs = comms.clone();
            cs[j] = &cq.comms[0];
            let o = check::<S>(&tx.w.vk, &cs, &z, &values, &sproof, &mut tx.sponge(), 4);
            expect_not_accept(ctx, &o, "commitment-replaced", "check", sdesc.clone());
        } else {
            ctx.skipped("commitment-replaced", "replacement commit refused");
        }
    }
}

pub fn run(ctx: &mut Ctx) {
    crate::schemes::set_custom_params(true);
    for_each_scheme!(ctx, S, {
        let n = ctx.n(120, 2400) / <S as Scheme>::WEIGHT.max(1);
        ctx.run_cases(<S as Scheme>::NAME, n.max(4), |ctx, _i, rng| case::<S>(ctx, rng));
    });
    crate::schemes::set_large(true);
    for_each_scheme!(ctx, S, {
        let n = if ctx.is_thorough() { 8 } else { 3 };
        ctx.run_cases(&format!("{}/large", <S as Scheme>::NAME), n, |ctx, _i, rng| case::<S>(ctx, rng));
    });
    crate::schemes::set_large(false);
    super::offtrait::c02(ctx);
}
