//! C07 — hiding commitments and proofs are blinded with fresh, sufficient randomness.
use super::c08::{AsKzgParams, CommParts, RandParts};
use crate::mirror::{convert, MHyraxState};
use crate::oracle::{horner, naive_msm};
use crate::probe::mon_rng;
use crate::rt::{attempt, Ctx};
use crate::scen::*;
use crate::schemes::*;
use ark_ec::{pairing::Pairing, AffineRepr, CurveGroup};
use ark_ff::{PrimeField, UniformRand, Zero};
use ark_poly::{multivariate::Term, univariate::DensePolynomial, DenseMVPolynomial, DenseUVPolynomial, Polynomial};
use ark_poly_commit::{kzg10, LabeledPolynomial, PolynomialCommitment};
use ark_serialize::CanonicalSerialize;
use ark_std::ops::Mul;
use rand_chacha::ChaCha20Rng;
use rand_core::RngCore;
use serde_json::{json, Value};

const FBYTES: u64 = 32;

fn ser<T: CanonicalSerialize>(x: &T) -> Vec<u8> {
    crate::ju::ser(x)
}

fn blinding_ok<F: PrimeField>(coeffs: &[F], h: usize) -> (bool, Value) {
    let deg_ok = coeffs.len() == h + 2 && coeffs.last().map(|c| !c.is_zero()).unwrap_or(false);
    let nonzero = coeffs.iter().filter(|c| !c.is_zero()).count();
    let mut distinct = true;
    for i in 0..coeffs.len() {
        for j in 0..i {
            if coeffs[i] == coeffs[j] {
                distinct = false;
            }
        }
    }
    (deg_ok && nonzero == h + 2 && distinct, json!({"coefficients": coeffs.len(), "expected": h + 2, "nonzero": nonzero, "pairwise_distinct": distinct}))
}

/// Generic part: seeds, RNG accounting, missing RNG, determinism of non-hiding commitments.
fn generic<S: Scheme>(ctx: &mut Ctx, w: &World<S>, poly: &LPoly<S>, plain: &LPoly<S>, parts: u64, per_part_scalars: u64, rng: &mut ChaCha20Rng, desc: &Value) {
    let seed = rng.next_u64();
    let one = std::slice::from_ref(poly);
    // equal seeds => identical commitment and state
    let (a, b) = match (commit::<S>(&w.ck, one, seed), commit::<S>(&w.ck, one, seed)) {
        (Ok(a), Ok(b)) => (a, b),
        _ => return ctx.skipped("baseline", "hiding commit refused (reported under C01/C17)"),
    };
    let same = ser(a.comms[0].commitment()) == ser(b.comms[0].commitment()) && ser(&a.states[0]) == ser(&b.states[0]);
    ctx.check(same, "equal-seeds-equal-output", "commit", desc.clone(), || json!({"commitments_equal": ser(a.comms[0].commitment()) == ser(b.comms[0].commitment())}));
    // RNG accounting
    let need = parts * per_part_scalars * FBYTES;
    ctx.count("rng-bytes-observed", a.rng_bytes);
    ctx.check(a.rng_bytes >= need, "rng-accounting", "commit", desc.clone(), || json!({"bytes_drawn_from_caller_rng": a.rng_bytes, "minimum_expected": need, "calls": a.rng_calls}));
    // N repeated commitments under different seeds pairwise distinct
    let n = 16;
    let mut seen = std::collections::BTreeSet::new();
    let mut all = true;
    for i in 0..n {
        match commit::<S>(&w.ck, one, seed.wrapping_add(1 + i)) {
            Ok(c) => {
                if !seen.insert(ser(c.comms[0].commitment())) {
                    all = false;
                }
            }
            Err(_) => all = false,
        }
    }
    ctx.check(all && !seen.contains(&ser(a.comms[0].commitment())), "fresh-seeds-distinct-commitments", "commit", desc.clone(), || json!({"distinct": seen.len(), "of": n}));
    // hiding without an RNG must fail
    if !S::ALWAYS_RNG {
        let r = attempt(|| PcOf::<S>::commit(&w.ck, one.iter(), None));
        match r {
            Err(o) => {
                ctx.count(&format!("missing-rng:{}", o.tag()), 1);
                ctx.held("missing-rng-refused", desc.clone());
            }
            Ok((c, _)) => {
                // Ok is only acceptable if ... it is never acceptable: a hiding request was answered without randomness
                ctx.violated("missing-rng-refused", "commit", desc.clone(), json!({"outcome": "Ok", "commitment": crate::ju::dig(c[0].commitment())}));
            }
        }
        // non-hiding: deterministic, no randomness drawn
        let pl = std::slice::from_ref(plain);
        if let (Ok(x), Ok(y)) = (commit::<S>(&w.ck, pl, seed), commit::<S>(&w.ck, pl, seed ^ 0xdead_beef)) {
            let det = ser(x.comms[0].commitment()) == ser(y.comms[0].commitment());
            ctx.check(det && x.rng_bytes == 0, "non-hiding-deterministic", "commit", desc.clone(), || json!({"deterministic": det, "rng_bytes": x.rng_bytes}));
        }
    }
}

fn kzg_family<E: Pairing + CurveTag, S>(ctx: &mut Ctx, rng: &mut ChaCha20Rng, sonic: bool)
where
    E::ScalarField: ark_crypto_primitives::sponge::Absorb,
    S: Scheme<F = E::ScalarField, P = DensePolynomial<E::ScalarField>>,
    PpOf<S>: AsKzgParams<E>,
    CommOf<S>: CommParts<E>,
    StateOf<S>: RandParts<E::ScalarField>,
    ProofOf<S>: KzgProofParts<E>,
{
    let mut cfg = S::gen_cfg(rng, false);
    cfg.supported_hiding = cfg.supported_hiding.max(1);
    let w = match make_world::<S>(&cfg, rng) {
        Ok(w) => w,
        Err(_) => return ctx.skipped("baseline", "setup/trim refused (reported under C01/C09)"),
    };
    let pp = w.pp.kzg();
    let max = pp.powers_of_g.len() - 1;
    let bounds = usable_bounds::<S>(&cfg);
    let bound = if !bounds.is_empty() && rng.next_u32() % 2 == 0 { Some(bounds[below(rng, bounds.len())]) } else { None };
    let top = bound.map(|b| b.min(cfg.supported_degree)).unwrap_or(cfg.supported_degree);
    // a third of the cases draw the hiding bound up to the supported one whatever the degree bound is (h > bound:
    // Sonic blinds a bounded polynomial with the shortened shifted gamma powers and may refuse - a refusal is not
    // judged here - but a commitment that is returned must carry the h + 2 blinding coefficients asked for)
    let htop = if rng.next_u32() % 3 == 0 { cfg.supported_hiding.max(1) } else { cfg.supported_hiding.min(bound.unwrap_or(usize::MAX)).max(1) };
    let h = match rng.next_u32() % 3 {
        0 => 1,
        1 => htop,
        _ => range(rng, 1, htop),
    };
    if bound == Some(0) {
        return ctx.skipped("baseline", "bound 0 leaves no room for a hiding bound >= 1");
    }
    let shape = pick_shape(rng);
    let p = uni_poly::<E::ScalarField>(shape, below(rng, top + 1), rng);
    let lp: LPoly<S> = LabeledPolynomial::new("p".into(), p.clone(), bound, Some(h));
    let plain: LPoly<S> = LabeledPolynomial::new("p".into(), p.clone(), bound, None);
    let desc = json!({"cfg": cfg.json(), "bound": bound, "hiding": h, "shape": format!("{:?}", shape), "degree": p.degree()});
    let parts = if bound.is_some() && !sonic { 2 } else { 1 };
    generic::<S>(ctx, &w, &lp, &plain, parts, (h + 2) as u64, rng, &desc);
    // structure
    let c = match commit::<S>(&w.ck, std::slice::from_ref(&lp), rng.next_u64()) {
        Ok(c) => c,
        Err(_) => return,
    };
    let (cp, cs) = c.comms[0].commitment().parts();
    let (rp, rs) = c.states[0].parts();
    let gamma: Vec<E::G1Affine> = (0..pp.powers_of_gamma_g.len()).map(|i| pp.powers_of_gamma_g[&i]).collect();
    let (ok1, d1) = blinding_ok(&rp, h);
    let mut okb = ok1;
    let mut dets = vec![d1];
    if let Some(rs) = &rs {
        let (ok2, d2) = blinding_ok(rs, h);
        okb &= ok2 && rs != &rp;
        dets.push(d2);
    }
    ctx.check(okb, "blinding-polynomial-shape", "commit", desc.clone(), || json!({"parts": dets}));
    let base = match (sonic, bound) {
        (true, Some(d)) => naive_msm(&pp.powers_of_g[max - d..], p.coeffs()) + naive_msm(&gamma[max - d..], &rp),
        _ => naive_msm(&pp.powers_of_g[..], p.coeffs()) + naive_msm(&gamma[..], &rp),
    };
    let mut ok = base.into_affine() == cp;
    if let (Some(d), Some(cs), Some(rs)) = (bound, cs, &rs) {
        ok &= (naive_msm(&pp.powers_of_g[max - d..], p.coeffs()) + naive_msm(&gamma[..], rs)).into_affine() == cs;
    }
    ctx.check(ok, "commitment-is-plain-plus-blinding", "commit", desc.clone(), || json!({}));
    // proofs: random_v equals the blinding contribution at the point, weighted by the recorded challenges
    let tx = Tx::<S> { w, specs: vec![], polys: vec![lp.clone()], c, pre: b"c07".to_vec(), commit_seed: 0 };
    let z = E::ScalarField::rand(rng);
    let mut spp = tx.sponge();
    let proof = match open::<S>(&tx, &[0], &z, &mut spp, rng.next_u64()) {
        Ok(p) => p,
        Err(_) => return ctx.skipped("proof-blinding-value", "open refused (reported under C01)"),
    };
    let ch: Vec<E::ScalarField> = spp.squeezed_fes();
    let want = if sonic {
        ch.first().map(|x| *x * horner(&rp, &z))
    } else {
        let mut v = ch.first().map(|x| *x * horner(&rp, &z));
        if let (Some(rs), Some(x1), Some(v0)) = (&rs, ch.get(1), v) {
            v = Some(v0 + *x1 * horner(rs, &z));
        }
        v
    };
    let (_, rv) = proof.parts();
    ctx.check(rv.is_some() && rv == want, "proof-blinding-value", "open", desc.clone(), || json!({"random_v_present": rv.is_some(), "squeezes": ch.len()}));
    // different blinding => different proof (same polynomial, same point, same transcript)
    if let Ok(c2) = commit::<S>(&tx.w.ck, std::slice::from_ref(&lp), rng.next_u64()) {
        let tx2 = Tx::<S> { w: World { cfg: tx.w.cfg.clone(), pp: tx.w.pp.clone(), ck: tx.w.ck.clone(), vk: tx.w.vk.clone() }, specs: vec![], polys: vec![lp], c: c2, pre: b"c07".to_vec(), commit_seed: 0 };
        if let Ok(proof2) = open::<S>(&tx2, &[0], &z, &mut tx2.sponge(), 1) {
            let (w1, _) = proof.parts();
            let (w2, _) = proof2.parts();
            ctx.check(w1 != w2, "fresh-seeds-distinct-proofs", "open", desc, || json!({}));
        }
    }
}

pub trait KzgProofParts<E: Pairing> {
    fn parts(&self) -> (E::G1Affine, Option<E::ScalarField>);
}
impl<E: Pairing> KzgProofParts<E> for kzg10::Proof<E> {
    fn parts(&self) -> (E::G1Affine, Option<E::ScalarField>) {
        (self.w, self.random_v)
    }
}

fn kzg10_direct(ctx: &mut Ctx, rng: &mut ChaCha20Rng) {
    use super::offtrait::kzg_world;
    type F = ark_bls12_381::Fr;
    type K = kzg10::KZG10<E381, DensePolynomial<F>>;
    let w = match kzg_world(rng) {
        Ok(w) => w,
        Err(_) => return ctx.skipped("baseline", "setup refused"),
    };
    let powers = w.powers();
    let h = range(rng, 1, w.hiding_sup);
    let p = uni_poly::<F>(pick_shape(rng), below(rng, w.supported + 1), rng);
    let desc = json!({"max_degree": w.max_degree, "supported": w.supported, "hiding_supported": w.hiding_sup, "hiding": h, "degree": p.degree()});
    let mut r1 = mon_rng(7);
    let res = attempt(|| K::commit(&powers, &p, Some(h), Some(&mut r1)));
    let (c, st) = match res {
        Ok(x) => x,
        Err(o) => return ctx.violated("honest-pipeline-refused", "KZG10::commit", desc, json!({"outcome": o.json()})),
    };
    let coeffs = st.blinding_polynomial.coeffs.clone();
    let (ok, d) = blinding_ok(&coeffs, h);
    ctx.check(ok, "blinding-polynomial-shape", "KZG10::commit", desc.clone(), || d);
    ctx.check(r1.bytes >= (h as u64 + 2) * FBYTES, "rng-accounting", "KZG10::commit", desc.clone(), || json!({"bytes": r1.bytes}));
    let gamma: Vec<_> = (0..w.pp.powers_of_gamma_g.len()).map(|i| w.pp.powers_of_gamma_g[&i]).collect();
    let want = naive_msm(&w.pp.powers_of_g[..], p.coeffs()) + naive_msm(&gamma[..], &coeffs);
    ctx.check(want.into_affine() == c.0, "commitment-is-plain-plus-blinding", "KZG10::commit", desc.clone(), || json!({}));
    let r = attempt(|| K::commit(&powers, &p, Some(h), None));
    ctx.check(r.is_err(), "missing-rng-refused", "KZG10::commit", desc.clone(), || json!({"outcome": "Ok"}));
    let z = F::rand(rng);
    if let Ok(pf) = attempt(|| K::open(&powers, &p, z, &st)) {
        ctx.check(pf.random_v == Some(horner(&coeffs, &z)), "proof-blinding-value", "KZG10::open", desc.clone(), || json!({"present": pf.random_v.is_some()}));
    }
    let mut r2 = mon_rng(8);
    if let Ok((c2, _)) = attempt(|| K::commit(&powers, &p, Some(h), Some(&mut r2))) {
        ctx.check(c2.0 != c.0, "fresh-seeds-distinct-commitments", "KZG10::commit", desc.clone(), || json!({}));
    }
    let mut r3 = mon_rng(9);
    if let Ok((c3, st3)) = attempt(|| K::commit(&powers, &p, None, Some(&mut r3))) {
        let ok = c3.0 == naive_msm(&w.pp.powers_of_g[..], p.coeffs()).into_affine() && r3.bytes == 0 && !st3.is_hiding();
        ctx.check(ok, "non-hiding-deterministic", "KZG10::commit", desc, || json!({"rng_bytes": r3.bytes}));
    }
}

fn pst13(ctx: &mut Ctx, rng: &mut ChaCha20Rng) {
    type S = Pst13S<E381>;
    type F = ark_bls12_381::Fr;
    let cfg = S::gen_cfg(rng, false);
    let w = match make_world::<S>(&cfg, rng) {
        Ok(w) => w,
        Err(_) => return ctx.skipped("baseline", "setup/trim refused (reported under C01/C09)"),
    };
    let nv = cfg.num_vars.unwrap();
    let h = range(rng, 1, cfg.supported_hiding);
    let shape = pick_shape(rng);
    let p = mv_poly::<F>(nv, shape, below(rng, cfg.supported_degree + 1), rng);
    let lp: LPoly<S> = LabeledPolynomial::new("p".into(), p.clone(), None, Some(h));
    let plain: LPoly<S> = LabeledPolynomial::new("p".into(), p.clone(), None, None);
    let desc = json!({"cfg": cfg.json(), "hiding": h, "shape": format!("{:?}", shape)});
    // sum of nv univariate polynomials of degree h+1 sharing one constant: 1 + nv*(h+1) coefficients >= h+2
    generic::<S>(ctx, &w, &lp, &plain, 1, (h + 2) as u64, rng, &desc);
    let c = match commit::<S>(&w.ck, std::slice::from_ref(&lp), rng.next_u64()) {
        Ok(c) => c,
        Err(_) => return,
    };
    let bp = &c.states[0].blinding_polynomial;
    let nterms = bp.terms().len();
    let shape_ok = bp.degree() == h + 1 && nterms >= h + 2 && bp.terms().iter().all(|(co, _)| !co.is_zero());
    ctx.check(shape_ok, "blinding-polynomial-shape", "commit", desc.clone(), || json!({"degree": bp.degree(), "terms": nterms, "expected_degree": h + 1}));
    let mut img = <E381 as Pairing>::G1::zero();
    for (co, t) in p.terms() {
        img += w.pp.powers_of_g[t].mul(*co);
    }
    for (co, t) in bp.terms() {
        let base = if t.is_constant() { w.pp.gamma_g } else { w.pp.powers_of_gamma_g[t.vars()[0]][t.degree() - 1] };
        img += base.mul(*co);
    }
    ctx.check(img.into_affine() == c.comms[0].commitment().comm.0, "commitment-is-plain-plus-blinding", "commit", desc.clone(), || json!({}));
    let tx = Tx::<S> { w, specs: vec![], polys: vec![lp], c, pre: b"c07".to_vec(), commit_seed: 0 };
    let z: Vec<F> = (0..nv).map(|_| F::rand(rng)).collect();
    let mut spp = tx.sponge();
    if let Ok(proof) = open::<S>(&tx, &[0], &z, &mut spp, 3) {
        let ch: Vec<F> = spp.squeezed_fes();
        let want = ch.first().map(|x| *x * tx.c.states[0].blinding_polynomial.evaluate(&z));
        ctx.check(proof.random_v.is_some() && proof.random_v == want, "proof-blinding-value", "open", desc, || json!({"present": proof.random_v.is_some()}));
    }
}

fn ipa(ctx: &mut Ctx, rng: &mut ChaCha20Rng) {
    type S = IpaS;
    let cfg = S::gen_cfg(rng, false);
    let w = match make_world::<S>(&cfg, rng) {
        Ok(w) => w,
        Err(_) => return ctx.skipped("baseline", "setup/trim refused (reported under C01/C09)"),
    };
    let sup = S::max_poly_degree(&cfg);
    let bound = if rng.next_u32() % 2 == 0 { Some(range(rng, 0, sup)) } else { None };
    let p = uni_poly::<JFr>(pick_shape(rng), below(rng, bound.unwrap_or(sup) + 1), rng);
    let h = range(rng, 1, 3);
    let lp: LPoly<S> = LabeledPolynomial::new("p".into(), p.clone(), bound, Some(h));
    let plain: LPoly<S> = LabeledPolynomial::new("p".into(), p.clone(), bound, None);
    let desc = json!({"cfg": cfg.json(), "bound": bound, "hiding": h, "degree": p.degree()});
    // Pedersen-style hiding: one scalar under the dedicated generator `s` per blinded part
    generic::<S>(ctx, &w, &lp, &plain, if bound.is_some() { 2 } else { 1 }, 1, rng, &desc);
    let c = match commit::<S>(&w.ck, std::slice::from_ref(&lp), rng.next_u64()) {
        Ok(c) => c,
        Err(_) => return,
    };
    let st = &c.states[0];
    let cm = c.comms[0].commitment();
    let mut ok = (naive_msm(&w.pp.comm_key[..], p.coeffs()) + w.pp.s.mul(st.rand)).into_affine() == cm.comm && !st.rand.is_zero();
    if let Some(d) = bound {
        let sr = st.shifted_rand.unwrap_or(JFr::zero());
        ok &= !sr.is_zero() && sr != st.rand;
        ok &= Some((naive_msm(&w.pp.comm_key[sup - d..], p.coeffs()) + w.pp.s.mul(sr)).into_affine()) == cm.shifted_comm;
    }
    ctx.check(ok, "commitment-is-plain-plus-blinding", "commit", desc.clone(), || json!({}));
    let tx = Tx::<S> { w, specs: vec![], polys: vec![lp], c, pre: b"c07".to_vec(), commit_seed: 0 };
    let z = JFr::rand(rng);
    let (p1, p2) = (open::<S>(&tx, &[0], &z, &mut tx.sponge(), 11), open::<S>(&tx, &[0], &z, &mut tx.sponge(), 12));
    if let (Ok(p1), Ok(p2)) = (p1, p2) {
        let ok = p1.hiding_comm.is_some() && p1.rand.is_some() && p1.hiding_comm != p2.hiding_comm && p1.rand != p2.rand;
        ctx.check(ok, "fresh-seeds-distinct-proofs", "open", desc.clone(), || json!({"hiding_comm_present": p1.hiding_comm.is_some()}));
        // the blinding polynomial of a hiding opening spans the whole key (sup + 1 coefficients), whatever the degree
        // of the opened polynomial: at least sup + 2 scalars are drawn, and no cross term of the proof is the identity
        {
            let mut mr = crate::probe::mon_rng(13);
            let polys = [&tx.polys[0]];
            let r = attempt(|| <PcOf<S> as PolynomialCommitment<JFr, DensePolynomial<JFr>>>::open(&tx.w.ck, polys, tx.c.comms.iter(), &z, &mut tx.sponge(), tx.c.states.iter(), Some(&mut mr)));
            if let Ok(pf) = r {
                let enough = mr.bytes >= ((sup + 2) * 32) as u64;
                let no_identity = pf.l_vec.iter().chain(pf.r_vec.iter()).all(|g| !ark_ec::AffineRepr::is_zero(g));
                ctx.check(enough && no_identity, "proof-blinding-covers-the-key", "open", desc.clone(), || json!({"rng_bytes": mr.bytes, "required": (sup + 2) * 32, "identity_cross_terms": !no_identity, "degree": tx.polys[0].degree()}));
            }
        }
        // hiding open without RNG must not return a proof
        let polys = [&tx.polys[0]];
        let r = attempt(|| <PcOf<S> as PolynomialCommitment<JFr, DensePolynomial<JFr>>>::open(&tx.w.ck, polys, tx.c.comms.iter(), &z, &mut tx.sponge(), tx.c.states.iter(), None));
        ctx.check(r.is_err(), "missing-rng-refused", "open", desc, || json!({"outcome": "Ok(proof)"}));
    }
}

fn hyrax(ctx: &mut Ctx, rng: &mut ChaCha20Rng) {
    type S = HyraxS;
    let cfg = S::gen_cfg(rng, false);
    let w = match make_world::<S>(&cfg, rng) {
        Ok(w) => w,
        Err(_) => return ctx.skipped("baseline", "setup/trim refused (reported under C01/C09)"),
    };
    let nv = cfg.num_vars.unwrap();
    let dim = 1u64 << (nv / 2);
    let p = ml_poly::<JFr>(nv, pick_shape(rng), rng);
    let lp: LPoly<S> = LabeledPolynomial::new("p".into(), p.clone(), None, Some(1));
    let desc = json!({"nv": nv});
    // one blinding scalar per row, drawn from the caller's RNG
    generic::<S>(ctx, &w, &lp, &lp, dim, 1, rng, &desc);
    if let Ok(c) = commit::<S>(&w.ck, std::slice::from_ref(&lp), rng.next_u64()) {
        if let Ok(st) = convert::<_, MHyraxState<JFr>>(&c.states[0]) {
            let mut distinct = st.randomness.iter().all(|r| !r.is_zero());
            for i in 0..st.randomness.len() {
                for j in 0..i {
                    distinct &= st.randomness[i] != st.randomness[j];
                }
            }
            ctx.check(distinct && st.randomness.len() as u64 == dim, "blinding-polynomial-shape", "commit", desc, || json!({"row_blinders": st.randomness.len()}));
        }
    }
}

/// Hyrax proofs: each polynomial opened in one call must be blinded by its own fresh vector d.
/// d_i is recovered from the proof as z_i - c_i * (L^T M_i), with c_i decoded from the recorded sponge trace.
fn hyrax_proof_blinding(ctx: &mut Ctx, rng: &mut ChaCha20Rng) {
    type S = HyraxS;
    let mut cfg = S::gen_cfg(rng, false);
    if cfg.num_vars == Some(0) {
        cfg.num_vars = Some(2);
    }
    let w = match make_world::<S>(&cfg, rng) {
        Ok(w) => w,
        Err(_) => return ctx.skipped("baseline", "setup refused"),
    };
    let nv = cfg.num_vars.unwrap();
    let dim = 1usize << (nv / 2);
    let k = range(rng, 2, 3);
    let polys: Vec<LPoly<S>> = (0..k).map(|i| LabeledPolynomial::new(format!("p{}", i), ml_poly::<JFr>(nv, if i == 1 && rng.next_u32() % 3 == 0 { Shape::Zero } else { pick_shape(rng) }, rng), None, None)).collect();
    let c = match commit::<S>(&w.ck, &polys, rng.next_u64()) {
        Ok(c) => c,
        Err(_) => return ctx.skipped("baseline", "commit refused"),
    };
    let z: Vec<JFr> = (0..nv).map(|_| JFr::rand(rng)).collect();
    let tx = Tx::<S> { w, specs: vec![], polys, c, pre: b"c07h".to_vec(), commit_seed: 0 };
    let idx: Vec<usize> = (0..k).collect();
    let desc = json!({"nv": nv, "polynomials": k});
    let tensor = |vals: &[JFr]| -> Vec<JFr> {
        let mut out = vec![JFr::from(1u64)];
        for v in vals {
            let mut nxt = Vec::with_capacity(out.len() * 2);
            for o in &out {
                nxt.push(*o * (JFr::from(1u64) - v));
                nxt.push(*o * v);
            }
            out = nxt;
        }
        out
    };
    let rev: Vec<JFr> = z.iter().rev().cloned().collect();
    let l = tensor(&rev[nv / 2..]);
    let r = tensor(&rev[..nv / 2]);
    let recover = |seed: u64| -> Option<Vec<Vec<JFr>>> {
        let mut sp = tx.sponge();
        let proof = open::<S>(&tx, &idx, &z, &mut sp, seed).ok()?;
        let ch: Vec<JFr> = sp.squeezed_fes();
        if ch.len() != k || proof.len() != k {
            return None;
        }
        let mut ds = Vec::new();
        for i in 0..k {
            let ev = &tx.polys[i].polynomial().evaluations;
            // column-major layout: M[row][col] = evaluations[col * dim + row]
            let lt: Vec<JFr> = (0..dim).map(|col| (0..dim).map(|row| l[row] * ev[col * dim + row]).sum()).collect();
            let eval: JFr = lt.iter().zip(&r).map(|(a, b)| *a * b).sum();
            if eval != tx.polys[i].evaluate(&z) {
                return None;
            }
            let d: Vec<JFr> = proof[i].z.iter().zip(&lt).map(|(zz, t)| *zz - ch[i] * t).collect();
            ds.push(d);
        }
        Some(ds)
    };
    let (a, a2, b) = (recover(11), recover(11), recover(12));
    match (a, a2, b) {
        (Some(a), Some(a2), Some(b)) => {
            let mut distinct = a.iter().all(|d| d.iter().any(|x| !x.is_zero()));
            for i in 0..k {
                for j in 0..i {
                    distinct &= a[i] != a[j];
                }
            }
            ctx.check(distinct, "proof-blinding-per-polynomial", "open", desc.clone(), || json!({"recovered_vectors": a.len(), "pairwise_distinct": distinct}));
            ctx.check(a == a2 && a != b, "proof-blinding-follows-caller-rng", "open", desc, || json!({"same_seed_equal": a == a2, "other_seed_differs": a != b}));
        }
        _ => ctx.skipped("proof-blinding-per-polynomial", "blinding vectors could not be recovered (open refused or transcript model mismatch)"),
    }
}

pub fn run(ctx: &mut Ctx) {
    let n = ctx.n(100, 2000);
    ctx.run_cases("hyrax/proof-blinding", n / 2, |ctx, _i, rng| hyrax_proof_blinding(ctx, rng));
    ctx.run_cases("kzg10", n, |ctx, _i, rng| kzg10_direct(ctx, rng));
    ctx.run_cases("marlin", n / 2, |ctx, _i, rng| kzg_family::<E381, MarlinS<E381>>(ctx, rng, false));
    ctx.run_cases("sonic", n / 2, |ctx, _i, rng| kzg_family::<E381, SonicS<E381>>(ctx, rng, true));
    ctx.run_cases("pst13", n / 4, |ctx, _i, rng| pst13(ctx, rng));
    ctx.run_cases("ipa", n, |ctx, _i, rng| ipa(ctx, rng));
    ctx.run_cases("hyrax", n / 2, |ctx, _i, rng| hyrax(ctx, rng));
    // hiding at sizes beyond a thousand coefficients
    set_large(true);
    let nl = if ctx.is_thorough() { 6 } else { 2 };
    ctx.run_cases("marlin/large", nl, |ctx, _i, rng| kzg_family::<E381, MarlinS<E381>>(ctx, rng, false));
    ctx.run_cases("sonic/large", nl, |ctx, _i, rng| kzg_family::<E381, SonicS<E381>>(ctx, rng, true));
    ctx.run_cases("ipa/large", nl, |ctx, _i, rng| ipa(ctx, rng));
    ctx.run_cases("hyrax/large", nl, |ctx, _i, rng| hyrax(ctx, rng));
    set_large(false);
    if ctx.is_thorough() {
        ctx.run_cases("marlin-377", n / 4, |ctx, _i, rng| kzg_family::<E377, MarlinS<E377>>(ctx, rng, false));
    }
    let _ = <ark_bls12_381::G1Affine as AffineRepr>::zero();
}
