//! C19 — succinctness: commitment and proof sizes follow each scheme's asymptotics.
use crate::mirror::{convert, MLinCommitment};
use crate::rt::{guard, Ctx};
use crate::scen::*;
use crate::schemes::*;
use ark_ff::UniformRand;
use ark_poly::Polynomial;
use ark_poly_commit::linear_codes::{verif_calculate_t, LinCodeParametersInfo};
use ark_poly_commit::{LabeledPolynomial, PCCommitterKey, QuerySet};
use ark_serialize::{CanonicalSerialize, Compress};
use rand_chacha::ChaCha20Rng;
use rand_core::RngCore;
use serde_json::{json, Value};

fn sz<T: CanonicalSerialize>(x: &T) -> usize {
    let mut v = Vec::new();
    x.serialize_with_mode(&mut v, Compress::Yes).unwrap();
    debug_assert_eq!(v.len(), x.serialized_size(Compress::Yes));
    v.len()
}

struct Sizes {
    comm: usize,
    proof: usize,
    batch: usize,
    npoints: usize,
}

/// commit `npolys` polynomials of the given degree / settings, open all of them at `npoints` points
fn measure<S: Scheme>(cfg: &Cfg, deg: usize, bound: Option<usize>, hiding: Option<usize>, npolys: usize, npoints: usize, rng: &mut ChaCha20Rng) -> Result<Sizes, String> {
    let w = make_world::<S>(cfg, rng).map_err(|(s, o)| format!("{} {:?}", s, o))?;
    let polys: Vec<LPoly<S>> = (0..npolys).map(|i| LabeledPolynomial::new(format!("p{}", i), S::gen_poly(cfg, Shape::Full, deg, rng), bound, hiding)).collect();
    let c = commit::<S>(&w.ck, &polys, rng.next_u64()).map_err(|o| format!("commit {:?}", o))?;
    let tx = Tx::<S> { w, specs: vec![], polys, c, pre: vec![], commit_seed: 0 };
    let mut qs: QuerySet<PtOf<S>> = QuerySet::new();
    let mut zs = Vec::new();
    for j in 0..npoints {
        let z = S::gen_point(cfg, rng);
        zs.push(z.clone());
        for p in &tx.polys {
            qs.insert((p.label().clone(), (format!("z{}", j), z.clone())));
        }
    }
    let ident: Vec<usize> = (0..npolys).collect();
    let bp = batch_open::<S>(&tx, &ident, &qs, &mut tx.sponge(), 1).map_err(|o| format!("batch_open {:?}", o))?;
    let single = open::<S>(&tx, &ident, &zs[0], &mut tx.sponge(), 1).map_err(|o| format!("open {:?}", o))?;
    let one: BatchProofOf<S> = vec![single].into();
    Ok(Sizes { comm: sz(tx.c.comms[0].commitment()), proof: sz(&one) - 8, batch: sz(&bp), npoints })
}

const G1: usize = 48; // BLS12-381 G1 compressed
const G2: usize = 96;
const FR: usize = 32;
const JJ: usize = 32; // JubJub affine compressed

fn kzg_like<S: Scheme>(ctx: &mut Ctx, rng: &mut ChaCha20Rng, sonic: bool) {
    let bounded = rng.next_u32() % 2 == 0;
    let hiding = rng.next_u32() % 2 == 0;
    let npolys = range(rng, 1, 3);
    let npoints = range(rng, 1, 3);
    let ladder = [2usize, 4, 8, 16, 32, 64, 128, 256];
    let mut seen: Vec<(usize, usize, usize, usize)> = Vec::new();
    let desc = json!({"bounded": bounded, "hiding": hiding, "npolys": npolys, "npoints": npoints, "ladder": ladder});
    for &d in &ladder {
        let cfg = Cfg { max_degree: d, num_vars: None, supported_degree: d, supported_hiding: 1, enforced: if bounded { Some(vec![d]) } else { None } };
        match measure::<S>(&cfg, d, if bounded { Some(d) } else { None }, if hiding { Some(1) } else { None }, npolys, npoints, rng) {
            Ok(s) => seen.push((d, s.comm, s.proof, s.batch)),
            Err(e) => return ctx.skipped("constant-size", &format!("pipeline refused: {}", crate::rt::clip(&e, 60))),
        }
    }
    let want_comm = if sonic { G1 } else { G1 + 1 + if bounded { G1 } else { 0 } };
    let want_proof = G1 + 1 + if hiding { FR } else { 0 };
    let ok = seen.iter().all(|(_, c, p, b)| *c == want_comm && *p == want_proof && *b == 8 + npoints * want_proof);
    ctx.check(ok, "constant-size", "serialize", desc, || json!({"expected": [want_comm, want_proof, 8 + npoints * want_proof], "observed(degree,commitment,proof,batch)": seen}));
}

fn pst13(ctx: &mut Ctx, rng: &mut ChaCha20Rng) {
    type S = Pst13S<E381>;
    let hiding = rng.next_u32() % 2 == 0;
    let npolys = range(rng, 1, 3);
    let npoints = range(rng, 1, 2);
    let mut seen = Vec::new();
    let mut ok = true;
    for nv in 1..=5usize {
        for d in [1usize, 2, 3] {
            let cfg = Cfg { max_degree: d, num_vars: Some(nv), supported_degree: d, supported_hiding: d, enforced: None };
            match measure::<S>(&cfg, d, None, if hiding { Some(1) } else { None }, npolys, npoints, rng) {
                Ok(s) => {
                    let wp = 8 + nv * G1 + 1 + if hiding { FR } else { 0 };
                    ok &= s.comm == G1 + 1 && s.proof == wp && s.batch == 8 + npoints * wp;
                    seen.push((nv, d, s.comm, s.proof, s.batch));
                }
                Err(e) => return ctx.skipped("one-element-per-variable", &format!("pipeline refused: {}", crate::rt::clip(&e, 60))),
            }
        }
    }
    ctx.check(ok, "one-element-per-variable", "serialize", json!({"hiding": hiding, "npolys": npolys, "npoints": npoints}), || json!({"observed(nv,deg,commitment,proof,batch)": seen}));
}

fn mlpst(ctx: &mut Ctx, rng: &mut ChaCha20Rng) {
    use ark_poly_commit::multilinear_pc::MultilinearPC;
    let mut seen = Vec::new();
    let mut ok = true;
    for nv in 1..=(if ctx.is_thorough() { 10 } else { 8 }) {
        let r = guard(|| {
            let pp = MultilinearPC::<E381>::setup(nv, rng);
            let (ck, _) = MultilinearPC::<E381>::trim(&pp, nv);
            let p = ml_poly::<ark_bls12_381::Fr>(nv, Shape::Full, rng);
            let c = MultilinearPC::<E381>::commit(&ck, &p);
            let z: Vec<_> = (0..nv).map(|_| ark_bls12_381::Fr::rand(rng)).collect();
            let pf = MultilinearPC::<E381>::open(&ck, &p, &z);
            (sz(&c), sz(&pf))
        });
        match r {
            Ok((c, p)) => {
                ok &= c == 8 + G1 && p == 8 + nv * G2;
                seen.push((nv, c, p));
            }
            Err(_) => return ctx.skipped("one-element-per-variable", "pipeline refused"),
        }
    }
    ctx.check(ok, "one-element-per-variable", "serialize", json!({"scheme": "multilinear PST"}), || json!({"observed(nv,commitment,proof)": seen}));
}

fn ipa(ctx: &mut Ctx, rng: &mut ChaCha20Rng) {
    type S = IpaS;
    let bounded = rng.next_u32() % 2 == 0;
    let hiding = rng.next_u32() % 2 == 0;
    let npolys = range(rng, 1, 3);
    let npoints = range(rng, 1, 2);
    let mut seen = Vec::new();
    let mut ok = true;
    for d in [2usize, 3, 5, 7, 8, 15, 16, 31, 63, 64, 100, 255] {
        // the universal parameters may be larger than the trimmed key, and the tight bound may be listed as enforced:
        // the number of rounds follows the REQUESTED supported degree
        let max_degree = [d, 2 * d + 1, 4 * d + 3][below(rng, 3)];
        let cfg = Cfg { max_degree, num_vars: None, supported_degree: d, supported_hiding: 1, enforced: if bounded && rng.next_u32() % 2 == 0 { Some(vec![d]) } else { None } };
        match measure::<S>(&cfg, d, if bounded { Some(d) } else { None }, if hiding { Some(1) } else { None }, npolys, npoints, rng) {
            Ok(s) => {
                let rounds = ((d + 1).next_power_of_two()).trailing_zeros() as usize;
                let wp = 2 * (8 + rounds * JJ) + JJ + FR + 2 * (1 + if hiding { 32 } else { 0 });
                let wc = JJ + 1 + if bounded { JJ } else { 0 };
                ok &= s.proof == wp && s.comm == wc && s.batch == 8 + npoints * wp;
                seen.push((d, rounds, s.comm, s.proof, s.batch));
            }
            Err(e) => return ctx.skipped("two-elements-per-round", &format!("pipeline refused: {}", crate::rt::clip(&e, 60))),
        }
    }
    ctx.check(ok, "two-elements-per-round", "serialize", json!({"bounded": bounded, "hiding": hiding, "npolys": npolys, "npoints": npoints}), || json!({"observed(degree,rounds,commitment,proof,batch)": seen}));
}

fn hyrax(ctx: &mut Ctx, rng: &mut ChaCha20Rng) {
    type S = HyraxS;
    let npolys = range(rng, 1, 3);
    let npoints = range(rng, 1, 2);
    let mut seen = Vec::new();
    let mut ok = true;
    for nv in [0usize, 2, 4, 6, 8, 10] {
        if nv == 10 && !ctx.is_thorough() {
            continue;
        }
        let cfg = Cfg { max_degree: 1, num_vars: Some(nv), supported_degree: 1, supported_hiding: 1, enforced: None };
        match measure::<S>(&cfg, 0, None, None, npolys, npoints, rng) {
            Ok(s) => {
                let dim = 1usize << (nv / 2);
                let per_poly = 3 * JJ + (8 + dim * FR) + 2 * FR;
                let wp = 8 + npolys * per_poly;
                ok &= s.comm == 8 + dim * JJ && s.proof == wp && s.batch == 8 + npoints * wp;
                seen.push((nv, dim, s.comm, s.proof, s.batch));
            }
            Err(e) => return ctx.skipped("square-root-size", &format!("pipeline refused: {}", crate::rt::clip(&e, 60))),
        }
    }
    ctx.check(ok, "square-root-size", "serialize", json!({"npolys": npolys, "npoints": npoints}), || json!({"observed(nv,dim,commitment,proof,batch)": seen}));
}

fn streaming(ctx: &mut Ctx, rng: &mut ChaCha20Rng) {
    use ark_poly_commit::streaming_kzg::CommitterKey;
    let mut seen = Vec::new();
    let mut ok = true;
    for d in [2usize, 8, 32, 128, 256] {
        let r = guard(|| {
            let ck = CommitterKey::<E381>::new(d, 3, rng);
            let p: Vec<ark_bls12_381::Fr> = (0..=d).map(|_| ark_bls12_381::Fr::rand(rng)).collect();
            let c = ck.commit(&p);
            let (_, pf) = ck.open(&p, &ark_bls12_381::Fr::rand(rng));
            (c.size_in_bytes(), sz(&c.verif_point()), sz(&pf.0))
        });
        match r {
            Ok((a, b, c)) => {
                ok &= a == G1 && b == G1 && c == G1;
                seen.push((d, a, b, c));
            }
            Err(_) => return ctx.skipped("constant-size", "pipeline refused"),
        }
    }
    ctx.check(ok, "constant-size", "serialize", json!({"scheme": "streaming"}), || json!({"observed": seen}));
}

/// Combination proofs (open_combinations): every per-point proof has the size of a single opening, with the
/// blinding part present exactly when blinding takes part at that point. `net`: the KZG-style schemes blind a
/// combination iff the NET coefficient of some hiding polynomial is non-zero (0*h + p and h + p - h are unblinded);
/// the inner-product argument blinds it iff a hiding polynomial is referenced (no zero coefficients generated there).
fn lc_proofs<S: Scheme>(ctx: &mut Ctx, rng: &mut ChaCha20Rng, per_point: fn(&Cfg, bool) -> usize, net: bool) {
    use ark_ff::Zero;
    use ark_poly_commit::{LCTerm, LinearCombination, PolynomialCommitment};
    let cfg = if S::KIND == Kind::Multivariate {
        let nv = range(rng, 1, 4);
        let d = range(rng, 1, 3);
        Cfg { max_degree: d, num_vars: Some(nv), supported_degree: d, supported_hiding: d, enforced: None }
    } else {
        let d = [3usize, 7, 16, 33, 64][below(rng, 5)];
        Cfg { max_degree: d, num_vars: None, supported_degree: d, supported_hiding: 1, enforced: None }
    };
    let d = cfg.supported_degree;
    let w = match make_world::<S>(&cfg, rng) {
        Ok(w) => w,
        Err(_) => return ctx.skipped("combination-proof-size", "setup refused"),
    };
    let npolys = range(rng, 2, 4);
    // at least one hiding and one non-hiding polynomial, in random positions
    let mut hid: Vec<bool> = (0..npolys).map(|_| rng.next_u32() % 2 == 0).collect();
    let (a, b) = (below(rng, npolys), below(rng, npolys - 1));
    let b = if b >= a { b + 1 } else { b };
    hid[a] = true;
    hid[b] = false;
    let polys: Vec<LPoly<S>> = (0..npolys)
        .map(|i| LabeledPolynomial::new(format!("p{}", i), S::gen_poly(&cfg, Shape::Full, range(rng, 1, d), rng), None, if hid[i] { Some(1) } else { None }))
        .collect();
    let c = match commit::<S>(&w.ck, &polys, rng.next_u64()) {
        Ok(c) => c,
        Err(_) => return ctx.skipped("combination-proof-size", "commit refused"),
    };
    let nlc = range(rng, 2, 4);
    let mut lcs: Vec<LinearCombination<FOf<S>>> = Vec::new();
    let mut lc_blinded: Vec<bool> = Vec::new();
    let mut shapes: Vec<String> = Vec::new();
    for j in 0..nlc {
        let mut lc = LinearCombination::empty(format!("{}{}", ["lc", "eq", "a_"][below(rng, 3)], j));
        let mut netc: Vec<FOf<S>> = vec![FOf::<S>::zero(); npolys];
        let mut referenced = vec![false; npolys];
        let mut push = |lc: &mut LinearCombination<FOf<S>>, c: FOf<S>, i: usize| {
            netc[i] += c;
            referenced[i] = true;
            lc.push((c, LCTerm::PolyLabel(format!("p{}", i))));
        };
        // the first two combinations: one without blinding, one with a hiding polynomial, in random order
        let force: Option<bool> = if j < 2 { Some((j == 0) == (a < b)) } else { None };
        let small = |rng: &mut ChaCha20Rng| FOf::<S>::from(range(rng, 1, 9) as u64);
        let mut shape = "plain";
        match force {
            Some(false) if net && rng.next_u32() % 2 == 0 => {
                // unblinded although a hiding polynomial is named: zero coefficient, or cancelling terms
                if rng.next_u32() % 2 == 0 {
                    shape = "0*h + p";
                    push(&mut lc, FOf::<S>::zero(), a);
                    push(&mut lc, small(rng), b);
                } else {
                    shape = "h + p - h";
                    let k = small(rng);
                    push(&mut lc, k, a);
                    push(&mut lc, small(rng), b);
                    push(&mut lc, -k, a);
                }
            }
            _ => {
                for _ in 0..range(rng, 1, 3) {
                    let i = match force {
                        Some(true) => a,
                        Some(false) => b,
                        None => below(rng, npolys),
                    };
                    push(&mut lc, small(rng), i);
                }
            }
        }
        if rng.next_u32() % 3 == 0 {
            lc.push((FOf::<S>::from(5u64), LCTerm::One));
        }
        let blinded = if net { (0..npolys).any(|i| hid[i] && !netc[i].is_zero()) } else { (0..npolys).any(|i| hid[i] && referenced[i]) };
        lcs.push(lc);
        lc_blinded.push(blinded);
        shapes.push(shape.to_string());
    }
    // each combination at its own point label; sometimes one more label opening several of them
    let mut qs: QuerySet<PtOf<S>> = QuerySet::new();
    let mut groups: std::collections::BTreeMap<String, bool> = Default::default();
    for (j, lc) in lcs.iter().enumerate() {
        let pl = format!("z{}", j);
        qs.insert((lc.label().clone(), (pl.clone(), S::gen_point(&cfg, rng))));
        groups.insert(pl, lc_blinded[j]);
    }
    if rng.next_u32() % 2 == 0 {
        let z = S::gen_point(&cfg, rng);
        let mut h = false;
        for (j, lc) in lcs.iter().enumerate() {
            if j == 0 || rng.next_u32() % 2 == 0 {
                qs.insert((lc.label().clone(), ("w".to_string(), z.clone())));
                h |= lc_blinded[j];
            }
        }
        groups.insert("w".to_string(), h);
    }
    let tx = Tx::<S> { w, specs: vec![], polys, c, pre: vec![], commit_seed: 0 };
    let mut r = crate::probe::mon_rng(rng.next_u64());
    let res = crate::rt::attempt(|| PcOf::<S>::open_combinations(&tx.w.ck, lcs.iter(), tx.polys.iter(), tx.c.comms.iter(), &qs, &mut tx.sponge(), tx.c.states.iter(), Some(&mut r)));
    let desc = json!({"cfg": cfg.json(), "hiding": hid, "combinations": lcs.iter().zip(&lc_blinded).zip(&shapes).map(|((l, h), s)| json!({"label": l.label(), "terms": l.len(), "blinded": h, "shape": s})).collect::<Vec<_>>(),
        "point_labels": groups});
    let lp = match res {
        Ok(p) => p,
        Err(_) => return ctx.skipped("combination-proof-size", "open_combinations refused (reported under C06)"),
    };
    for s in &shapes {
        ctx.count(&format!("combination-shape:{}", s), 1);
    }
    let proofs: Vec<ProofOf<S>> = lp.proof.clone().into();
    let sizes: Vec<usize> = proofs.iter().map(|p| { let one: BatchProofOf<S> = vec![p.clone()].into(); sz(&one) - 8 }).collect();
    let want: Vec<usize> = groups.values().map(|h| per_point(&cfg, *h)).collect();
    ctx.check(sizes == want, "combination-proof-size", "serialize", desc, || json!({"expected_per_point_label": want, "observed": sizes, "evals": lp.evals.as_ref().map(|e| e.len())}));
}

fn kzg_point_proof(_c: &Cfg, hiding: bool) -> usize {
    G1 + 1 + if hiding { FR } else { 0 }
}

fn pst13_point_proof(c: &Cfg, hiding: bool) -> usize {
    8 + c.num_vars.unwrap() * G1 + 1 + if hiding { FR } else { 0 }
}

fn ipa_point_proof(c: &Cfg, hiding: bool) -> usize {
    let rounds = ((c.supported_degree + 1).next_power_of_two()).trailing_zeros() as usize;
    2 * (8 + rounds * JJ) + JJ + FR + 2 * (1 + if hiding { 32 } else { 0 })
}

/// modelled proof size for a coefficient matrix with `rows` rows
fn model(n: usize, rows: usize, sec: usize, dist: (usize, usize), expansion: (usize, usize), pow2_codeword: bool, wf: bool) -> Option<usize> {
    let cols = (n + rows - 1) / rows;
    let mut ext = (cols * expansion.0 + expansion.1 - 1) / expansion.1;
    if pow2_codeword {
        ext = ext.next_power_of_two();
    }
    let t = verif_calculate_t::<LFr>(sec, dist, ext).ok()?;
    let depth = (ext.next_power_of_two().max(2)).trailing_zeros() as usize;
    // same canonical-serialization overheads as the real proof type: t authentication paths (leaf sibling,
    // depth-1 inner siblings, leaf index), the combination vector(s) of `cols` elements, t columns of `rows` elements
    let path = (8 + 32) + 8 + (depth - 1) * (8 + 32) + 8;
    let vecs = (8 + cols * FR) + 1 + if wf { 8 + cols * FR } else { 0 };
    Some(8 + (8 + t * path) + vecs + (8 + t * (8 + rows * FR)))
}

fn linear<S>(ctx: &mut Ctx, rng: &mut ChaCha20Rng, expansion: (usize, usize), pow2: bool, custom: Option<CkOf<S>>)
where
    S: Scheme<F = LFr>,
    S::PC: ark_poly_commit::PolynomialCommitment<LFr, POf<S>, VerifierKey = CkOf<S>, UniversalParams = CkOf<S>>,
    CkOf<S>: LinCodeParametersInfo<MtParams, ColHasher<LFr>> + Clone,
{
    let thorough = ctx.is_thorough();
    let sizes: Vec<usize> = if S::KIND == Kind::Univariate {
        let mut v = vec![3usize, 15, 63, 255, 1023, 4095, 16383];
        if thorough {
            v.push(65535);
        }
        v
    } else {
        let mut v = vec![2usize, 4, 6, 8, 10, 12, 14];
        if thorough && S::NAME != "brakedown" {
            v.push(16);
        }
        v
    };
    let mut seen: Vec<Value> = Vec::new();
    let (mut ok, mut ok_capped, mut n_capped, mut n_sqrt) = (true, true, 0usize, 0usize);
    let mut comm_sizes = std::collections::BTreeSet::new();
    let mut sec_used = 0usize;
    for &s in &sizes {
        let cfg = if S::KIND == Kind::Univariate {
            Cfg { max_degree: s, num_vars: None, supported_degree: s, supported_hiding: 0, enforced: None }
        } else {
            Cfg { max_degree: 1, num_vars: Some(s), supported_degree: 1, supported_hiding: 0, enforced: None }
        };
        let w = match &custom {
            Some(ck) => World::<S> { cfg: cfg.clone(), pp: ck.clone(), ck: ck.clone(), vk: ck.clone() },
            None => match make_world::<S>(&cfg, rng) {
                Ok(w) => w,
                Err(_) => return ctx.skipped("proof-within-4x-of-best-shape[t-capped]", "setup refused"),
            },
        };
        let n = if S::KIND == Kind::Univariate { s + 1 } else { 1usize << s };
        let p: LPoly<S> = LabeledPolynomial::new("p".into(), S::gen_poly(&cfg, Shape::Full, s, rng), None, None);
        let c = match commit::<S>(&w.ck, std::slice::from_ref(&p), 1) {
            Ok(c) => c,
            Err(_) => return ctx.skipped("proof-within-4x-of-best-shape[t-capped]", "commit refused"),
        };
        let sec = w.ck.sec_param();
        sec_used = sec;
        let dist = w.ck.distance();
        let wf = w.ck.check_well_formedness();
        let _ = w.ck.supported_degree();
        let cm: MLinCommitment = match convert(c.comms[0].commitment()) {
            Ok(m) => m,
            Err(_) => return ctx.skipped("proof-within-4x-of-best-shape[t-capped]", "mirror failed"),
        };
        let tx = Tx::<S> { w, specs: vec![], polys: vec![p], c, pre: vec![], commit_seed: 0 };
        let z = S::gen_point(&cfg, rng);
        let pf = match open::<S>(&tx, &[0], &z, &mut tx.sponge(), 1) {
            Ok(p) => p,
            Err(_) => return ctx.skipped("proof-within-4x-of-best-shape[t-capped]", "open refused"),
        };
        let one: BatchProofOf<S> = vec![pf].into();
        let psize = sz(&one);
        let csize = sz(tx.c.comms[0].commitment());
        comm_sizes.insert(csize);
        let mut best = usize::MAX;
        let mut rows = 1usize;
        while rows <= n.next_power_of_two() {
            if let Some(m) = model(n, rows, sec, dist, expansion, pow2, wf) {
                best = best.min(m);
            }
            rows *= 2;
        }
        // the library's own column count for this shape: capped at the codeword length or below it
        let t_lib = verif_calculate_t::<LFr>(sec, dist, cm.metadata.n_ext_cols).unwrap_or(0);
        let capped = t_lib >= cm.metadata.n_ext_cols;
        let fine = psize <= 4 * best;
        if capped {
            ok_capped &= fine;
            n_capped += 1;
        } else {
            ok &= fine;
            n_sqrt += 1;
        }
        seen.push(json!({"size": n, "t_capped_at_codeword_length": capped, "ratio_x100": psize * 100 / best.max(1), "n_rows": cm.metadata.n_rows, "n_cols": cm.metadata.n_cols, "n_ext_cols": cm.metadata.n_ext_cols, "proof_bytes": psize, "best_modelled": best, "commitment_bytes": csize}));
    }
    if n_sqrt > 0 {
        ctx.check(ok, "proof-within-4x-of-best-shape[t-below-codeword-length]", "serialize", json!({"scheme": S::NAME, "sizes": sizes, "sec_param": sec_used}), || json!({"observed": seen}));
    } else {
        ctx.skipped("proof-within-4x-of-best-shape[t-below-codeword-length]", "no size on the ladder has t below the codeword length");
    }
    if n_capped > 0 {
        ctx.check(ok_capped, "proof-within-4x-of-best-shape[t-capped]", "serialize", json!({"scheme": S::NAME, "sizes": sizes, "sec_param": sec_used}), || json!({"observed": seen}));
    }
    ctx.check(comm_sizes.len() == 1 && comm_sizes.iter().all(|c| *c == 3 * 8 + 8 + 32), "constant-size", "serialize", json!({"scheme": S::NAME, "artefact": "commitment"}), || json!({"sizes": comm_sizes}));
}

pub fn run(ctx: &mut Ctx) {
    let n = ctx.n(16, 160);
    ctx.run_cases("marlin", n / 2, |ctx, _i, rng| kzg_like::<MarlinS<E381>>(ctx, rng, false));
    ctx.run_cases("sonic", n / 2, |ctx, _i, rng| kzg_like::<SonicS<E381>>(ctx, rng, true));
    ctx.run_cases("pst13", n / 4, |ctx, _i, rng| pst13(ctx, rng));
    ctx.run_cases("mlpst", n / 4, |ctx, _i, rng| mlpst(ctx, rng));
    ctx.run_cases("ipa", n, |ctx, _i, rng| ipa(ctx, rng));
    ctx.run_cases("marlin/combinations", n, |ctx, _i, rng| lc_proofs::<MarlinS<E381>>(ctx, rng, kzg_point_proof, true));
    ctx.run_cases("sonic/combinations", n, |ctx, _i, rng| lc_proofs::<SonicS<E381>>(ctx, rng, kzg_point_proof, true));
    ctx.run_cases("pst13/combinations", n / 2, |ctx, _i, rng| lc_proofs::<Pst13S<E381>>(ctx, rng, pst13_point_proof, true));
    ctx.run_cases("ipa/combinations", n, |ctx, _i, rng| lc_proofs::<IpaS>(ctx, rng, ipa_point_proof, false));
    ctx.run_cases("hyrax", n / 2, |ctx, _i, rng| hyrax(ctx, rng));
    ctx.run_cases("streaming", n / 4, |ctx, _i, rng| streaming(ctx, rng));
    ctx.run_cases("ligero-uni", n / 4, |ctx, _i, rng| linear::<UniLigeroS>(ctx, rng, (4, 1), true, None));
    ctx.run_cases("ligero-ml", n / 4, |ctx, _i, rng| linear::<MlLigeroS>(ctx, rng, (2, 1), true, None));
    ctx.run_cases("brakedown", n / 8, |ctx, _i, rng| linear::<BrakedownS>(ctx, rng, (1760, 1000), false, None));
    // lower security levels (fewer columns) move the square-root regime to smaller sizes
    use ark_poly_commit::linear_codes::LigeroPCParams;
    ctx.run_cases("ligero-uni/sec32", n / 4, |ctx, i, rng| {
        let rho = [2usize, 4, 8][(i % 3) as usize];
        let ck = LigeroPCParams::<LFr, MtParams, ColHasher<LFr>>::new(32, rho, true, (), (), ());
        linear::<UniLigeroS>(ctx, rng, (rho, 1), true, Some(ck))
    });
    ctx.run_cases("ligero-ml/sec32", n / 4, |ctx, i, rng| {
        let rho = [2usize, 4, 8][(i % 3) as usize];
        let ck = LigeroPCParams::<LFr, MtParams, ColHasher<LFr>>::new(32, rho, true, (), (), ());
        linear::<MlLigeroS>(ctx, rng, (rho, 1), true, Some(ck))
    });
}
