//! C01 — completeness: honest proofs of true claims are always accepted.
use crate::for_each_scheme;
use crate::rt::{Ctx, Out};
use crate::scen::*;
use crate::schemes::{below, range, Scheme, Shape};
use ark_poly::Polynomial;
use rand_chacha::ChaCha20Rng;
use rand_core::RngCore;
use serde_json::json;

pub fn features<S: Scheme>(ctx: &mut Ctx, tx: &Tx<S>, q: Option<&Queries<S>>) {
    for s in &tx.specs {
        if s.shape == Shape::Zero {
            ctx.count("feature:zero-polynomial", 1);
        }
        if s.shape == Shape::Const {
            ctx.count("feature:constant-polynomial", 1);
        }
        if s.bound == Some(0) {
            ctx.count("feature:degree-bound-zero", 1);
        }
        match (s.bound.is_some(), s.hiding.is_some()) {
            (true, true) => ctx.count("feature:bound+hiding", 1),
            (true, false) => ctx.count("feature:bound-only", 1),
            (false, true) => ctx.count("feature:hiding-only", 1),
            _ => ctx.count("feature:plain", 1),
        }
    }
    if let Some(q) = q {
        let mut shared = false;
        for i in 0..q.groups.len() {
            for j in 0..i {
                if q.groups[i].1 == q.groups[j].1 {
                    shared = true;
                }
            }
        }
        if shared {
            ctx.count("feature:labels-sharing-point-value", 1);
        }
        if q.groups.iter().any(|g| g.2.len() >= 2) {
            ctx.count("feature:several-polys-per-point", 1);
        }
    }
}

fn case<S: Scheme>(ctx: &mut Ctx, rng: &mut ChaCha20Rng) {
    let thorough = ctx.is_thorough();
    let tx = match gen_tx::<S>(rng, thorough, 5) {
        Ok(t) => t,
        Err(TxErr::Refused(stage, out, desc)) => {
            ctx.violated("honest-pipeline-refused", &stage, desc, json!({"outcome": out.json()}));
            return;
        }
    };
    let k = range(rng, 1, 4);
    let q = gen_queries::<S>(&tx.w.cfg, &tx.polys, k, rng);
    features(ctx, &tx, Some(&q));
    let pperm = permutation(tx.polys.len(), rng);
    let vperm = permutation(tx.polys.len(), rng);
    if pperm.iter().enumerate().any(|(i, p)| i != *p) || vperm.iter().enumerate().any(|(i, p)| i != *p) {
        ctx.count("feature:permuted-lists", 1);
    }
    let desc = json!({"tx": tx.json(), "queries": q.json(), "prover_perm": pperm, "verifier_perm": vperm});
    // ---- batch
    let mut sp_p = tx.sponge();
    match batch_open::<S>(&tx, &pperm, &q.qs, &mut sp_p, rng.next_u64()) {
        Err(o) => ctx.violated("honest-pipeline-refused", "batch_open", desc.clone(), json!({"outcome": o.json()})),
        Ok(proof) => {
            ctx.count("sponge-events-prover", sp_p.log.len() as u64);
            let vcomms = permuted(&tx.c.comms, &vperm);
            let mut all_ok = true;
            let mut outs = vec![];
            for _ in 0..2 {
                let mut sp_v = tx.sponge();
                let o = batch_check::<S>(&tx.w.vk, &vcomms, &q.qs, &q.evals, &proof, &mut sp_v, rng.next_u64());
                ctx.count("sponge-events-verifier", sp_v.log.len() as u64);
                if o != Out::Accept {
                    all_ok = false;
                }
                outs.push(o.json());
            }
            ctx.check(all_ok, "batch-accept", "batch_check", desc.clone(), || json!({"outcomes": outs}));
        }
    }
    // ---- single point, positional
    let g = &q.groups[below(rng, q.groups.len())];
    let mut idx: Vec<usize> = g.2.iter().map(|l| tx.idx_of(l)).collect();
    let p = permutation(idx.len(), rng);
    idx = permuted(&idx, &p);
    let z = g.1.clone();
    let values: Vec<_> = idx.iter().map(|&i| tx.polys[i].evaluate(&z)).collect();
    let sdesc = json!({"tx": tx.json(), "point": S::point_json(&z), "polys": idx.iter().map(|&i| tx.polys[i].label().clone()).collect::<Vec<_>>()});
    let mut sp_p = tx.sponge();
    match open::<S>(&tx, &idx, &z, &mut sp_p, rng.next_u64()) {
        Err(o) => ctx.violated("honest-pipeline-refused", "open", sdesc, json!({"outcome": o.json()})),
        Ok(proof) => {
            let comms: Vec<&LComm<S>> = idx.iter().map(|&i| &tx.c.comms[i]).collect();
            let mut sp_v = tx.sponge();
            let o = check::<S>(&tx.w.vk, &comms, &z, &values, &proof, &mut sp_v, rng.next_u64());
            ctx.check(o == Out::Accept, "single-accept", "check", sdesc, || json!({"outcome": o.json()}));
        }
    }
}

/// Directed search (inner-product argument): the Fiat-Shamir challenges are derived by hashing transcript bytes with
/// a counter until the digest parses as a scalar; a digest is rejected with probability ~0.094, so openings whose
/// FIRST round challenge needs many digests are far too rare for random sampling (9 digests: 6e-9 per opening).
/// For one fixed small instance the transcript bytes of that challenge are (xi*C, z, xi*p(z)) with xi taken from the
/// recorded sponge trace, so the harness can hash tens of millions of candidate points itself and hand the library
/// the point with the deepest retry count found.
fn ipa_deep_retry(ctx: &mut Ctx, idx: u64, rng: &mut ChaCha20Rng) {
    use crate::ipa_ref::ser3;
    use crate::schemes::{Cfg, IpaS, JFr};
    use ark_ec::{AffineRepr, CurveGroup};
    use ark_ff::Field;
    use ark_poly::DenseUVPolynomial;
    use digest::Digest;
    type S = IpaS;
    let cfg = Cfg { max_degree: 3, num_vars: None, supported_degree: 3, supported_hiding: 1, enforced: None };
    let w = match make_world::<S>(&cfg, rng) {
        Ok(w) => w,
        Err((st, o)) => return ctx.violated("honest-pipeline-refused", &st, cfg.json(), json!({"outcome": o.json()})),
    };
    let coeffs: Vec<JFr> = (0..4).map(|_| <JFr as ark_ff::UniformRand>::rand(rng)).collect();
    let p: LPoly<S> = ark_poly_commit::LabeledPolynomial::new("p".into(), ark_poly::univariate::DensePolynomial::from_coefficients_vec(coeffs.clone()), None, None);
    let c = match commit::<S>(&w.ck, std::slice::from_ref(&p), 2) {
        Ok(c) => c,
        Err(o) => return ctx.violated("honest-pipeline-refused", "commit", cfg.json(), json!({"outcome": o.json()})),
    };
    let mut pre = vec![0u8; 9];
    rng.fill_bytes(&mut pre);
    let tx = Tx::<S> { w, specs: vec![], polys: vec![p], c, pre, commit_seed: 0 };
    // xi: the first element squeezed by the prover (independent of the point)
    let mut sp = tx.sponge();
    if open::<S>(&tx, &[0], &JFr::from(5u64), &mut sp, 2).is_err() {
        return ctx.skipped("deep-challenge-retry", "honest open refused (reported by the other classes)");
    }
    let xi: JFr = match sp.squeezed_fes::<JFr>().first() {
        Some(x) => *x,
        None => return ctx.skipped("deep-challenge-retry", "no squeezed challenge recorded"),
    };
    let cc = (tx.c.comms[0].commitment().comm * xi).into_affine();
    let budget: u64 = if ctx.is_thorough() { 80_000_000 } else { 24_000_000 };
    let digests = |z: &JFr| -> u32 {
        let v = xi * coeffs.iter().rev().fold(JFr::from(0u64), |acc, c| acc * z + c);
        let mut inp = ser3(&cc, z, &v);
        let n = inp.len();
        inp.extend(0u64.to_le_bytes());
        let mut i = 0u64;
        loop {
            inp[n..].copy_from_slice(&i.to_le_bytes());
            let h = blake2::Blake2s256::digest(&inp);
            if JFr::from_random_bytes(&h).is_some() {
                return i as u32 + 1;
            }
            i += 1;
        }
    };
    let (mut best, mut best_z) = (0u32, JFr::from(0u64));
    let base = (idx << 40) + 7;
    for j in 0..budget {
        let z = JFr::from(base + j);
        let d = digests(&z);
        if d > best {
            best = d;
            best_z = z;
        }
    }
    ctx.count(&format!("deepest-retry:{}-digests", best), 1);
    let desc = json!({"coefficients": crate::ju::fes(&coeffs), "point": crate::ju::fe(&best_z), "digests_needed_for_first_round_challenge": best, "candidates_hashed": budget});
    let v = tx.polys[0].evaluate(&best_z);
    match open::<S>(&tx, &[0], &best_z, &mut tx.sponge(), 2) {
        Err(o) => ctx.violated("deep-challenge-retry", "open", desc, json!({"outcome": o.json()})),
        Ok(pf) => {
            let o = check::<S>(&tx.w.vk, &[&tx.c.comms[0]], &best_z, &[v], &pf, &mut tx.sponge(), 2);
            ctx.check(o == Out::Accept, "deep-challenge-retry", "check", desc, || json!({"outcome": o.json()}));
        }
    }
}

pub fn run(ctx: &mut Ctx) {
    crate::schemes::set_custom_params(true);
    crate::schemes::SPECIAL_POINTS.store(true, std::sync::atomic::Ordering::Relaxed);
    for_each_scheme!(ctx, S, {
        let n = ctx.n(160, 3000) / <S as Scheme>::WEIGHT.max(1);
        ctx.run_cases(<S as Scheme>::NAME, n.max(4), |ctx, _i, rng| case::<S>(ctx, rng));
    });
    // the same oracle on configurations with more than a thousand coefficients
    crate::schemes::set_large(true);
    for_each_scheme!(ctx, S, {
        let n = if ctx.is_thorough() { 12 } else { 4 };
        ctx.run_cases(&format!("{}/large", <S as Scheme>::NAME), n, |ctx, _i, rng| case::<S>(ctx, rng));
    });
    crate::schemes::set_large(false);
    ctx.run_cases("ipa/deep-retry", 16, |ctx, i, rng| ipa_deep_retry(ctx, i, rng));
    super::offtrait::c01(ctx);
}
