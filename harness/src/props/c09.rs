//! C09 — setup and trim produce well-formed, mutually consistent keys.
use crate::probe::mon_rng;
use crate::rt::{attempt, guard, Ctx, Out};
use crate::scen::*;
use crate::schemes::*;
use ark_ec::{pairing::Pairing, AffineRepr, CurveGroup};
use ark_ff::{PrimeField, UniformRand, Zero};
use ark_poly::{univariate::DensePolynomial, Polynomial};
use ark_poly_commit::{
    kzg10, marlin_pc, sonic_pc, LabeledPolynomial, PCCommitterKey, PCPreparedCommitment, PCPreparedVerifierKey, PCUniversalParams,
    PCVerifierKey, PolynomialCommitment,
};
use ark_std::ops::Mul;
use rand_chacha::ChaCha20Rng;
use rand_core::RngCore;
use serde_json::{json, Value};

fn weights<F: PrimeField>(n: usize, rng: &mut impl RngCore) -> Vec<F> {
    (0..n).map(|_| F::from(u128::rand(rng))).collect()
}

fn comb<G: AffineRepr>(elems: &[G], w: &[G::ScalarField]) -> G::Group {
    crate::oracle::naive_msm(elems, w)
}

/// elems[i+1] == beta * elems[i] for all i, checked through one randomized pairing equation;
/// on failure the first failing index is located with individual pairings.
fn chain_g1<E: Pairing>(elems: &[E::G1Affine], h: E::G2Affine, beta_h: E::G2Affine, rng: &mut impl RngCore) -> Result<(), usize> {
    if elems.len() < 2 {
        return Ok(());
    }
    let w = weights::<E::ScalarField>(elems.len() - 1, rng);
    let hi = comb(&elems[1..], &w);
    let lo = comb(&elems[..elems.len() - 1], &w);
    if E::pairing(hi, h) == E::pairing(lo, beta_h) {
        return Ok(());
    }
    for i in 0..elems.len() - 1 {
        if E::pairing(elems[i + 1], h) != E::pairing(elems[i], beta_h) {
            return Err(i + 1);
        }
    }
    Err(usize::MAX)
}

fn all_valid<G: AffineRepr>(elems: &[G]) -> bool {
    elems.iter().all(|g| !g.is_zero() && ark_serialize::Valid::check(g).is_ok())
}

fn all_distinct<G: AffineRepr>(elems: &[G]) -> bool {
    let mut v: Vec<Vec<u8>> = elems.iter().map(|g| crate::ju::ser(g)).collect();
    v.sort();
    v.windows(2).all(|w| w[0] != w[1])
}

fn check_srs<E: Pairing>(ctx: &mut Ctx, pp: &kzg10::UniversalParams<E>, max: usize, g2_powers: bool, desc: &Value, rng: &mut ChaCha20Rng) {
    let mut issues = Vec::new();
    if pp.powers_of_g.len() != max + 1 {
        issues.push(format!("powers_of_g has {} elements for max_degree {}", pp.powers_of_g.len(), max));
    }
    if pp.powers_of_gamma_g.len() != max + 2 || pp.powers_of_gamma_g.keys().copied().ne(0..max + 2) {
        issues.push(format!("powers_of_gamma_g has {} entries", pp.powers_of_gamma_g.len()));
    }
    if PCUniversalParams::max_degree(pp) != max {
        issues.push(format!("max_degree() reports {}", PCUniversalParams::max_degree(pp)));
    }
    if !all_valid(&pp.powers_of_g) || pp.h.is_zero() || pp.beta_h.is_zero() {
        issues.push("identity or invalid element published".into());
    }
    if let Err(i) = chain_g1::<E>(&pp.powers_of_g, pp.h, pp.beta_h, rng) {
        issues.push(format!("powers_of_g[{}] is not beta * powers_of_g[{}]", i, i.wrapping_sub(1)));
    }
    let gamma: Vec<E::G1Affine> = pp.powers_of_gamma_g.values().copied().collect();
    if let Err(i) = chain_g1::<E>(&gamma, pp.h, pp.beta_h, rng) {
        issues.push(format!("powers_of_gamma_g[{}] is not beta * previous", i));
    }
    if g2_powers {
        if pp.neg_powers_of_h.len() != max + 1 || pp.neg_powers_of_h.keys().copied().ne(0..max + 1) {
            issues.push(format!("neg_powers_of_h has {} entries", pp.neg_powers_of_h.len()));
        } else {
            // e(G_i, beta^-i H) == e(G_0, H) for all i, batched: e(sum r_i ... ) is not bilinear in both, so chain instead:
            // e(G_1, N_{i+1}) == e(G_0, N_i)
            let n: Vec<E::G2Affine> = pp.neg_powers_of_h.values().copied().collect();
            if n[0] != pp.h {
                issues.push("neg_powers_of_h[0] != h".into());
            }
            let w = weights::<E::ScalarField>(n.len().saturating_sub(1), rng);
            let hi: E::G2 = n[1..].iter().zip(&w).map(|(x, r)| x.mul(*r)).sum();
            let lo: E::G2 = n[..n.len() - 1].iter().zip(&w).map(|(x, r)| x.mul(*r)).sum();
            if n.len() > 1 && E::pairing(pp.powers_of_g[1], hi) != E::pairing(pp.powers_of_g[0], lo) {
                let mut bad = usize::MAX;
                for i in 0..n.len() - 1 {
                    if E::pairing(pp.powers_of_g[1], n[i + 1]) != E::pairing(pp.powers_of_g[0], n[i]) {
                        bad = i + 1;
                        break;
                    }
                }
                issues.push(format!("neg_powers_of_h[{}] is not beta^-1 * previous", bad));
            }
        }
    } else if !pp.neg_powers_of_h.is_empty() {
        issues.push("neg_powers_of_h published although not requested".into());
    }
    // prepared elements are the prepared form of the raw ones
    let g = pp.powers_of_g[0];
    let ok_prep = E::multi_pairing([g], [pp.prepared_h.clone()]) == E::pairing(g, pp.h)
        && E::multi_pairing([g], [pp.prepared_beta_h.clone()]) == E::pairing(g, pp.beta_h);
    if !ok_prep {
        issues.push("prepared_h / prepared_beta_h do not match h / beta_h".into());
    }
    ctx.check(issues.is_empty(), "srs-powers", "setup", desc.clone(), || json!({"issues": issues}));
}

fn refused<T>(r: Result<T, Out>) -> Option<Out> {
    r.err()
}

fn marlin<E: Pairing + CurveTag>(ctx: &mut Ctx, rng: &mut ChaCha20Rng)
where
    E::ScalarField: ark_crypto_primitives::sponge::Absorb,
{
    type S<E> = MarlinS<E>;
    let cfg = <S<E> as Scheme>::gen_cfg(rng, false);
    let desc = json!({"cfg": cfg.json()});
    let w = match make_world::<S<E>>(&cfg, rng) {
        Ok(w) => w,
        Err((st, o)) => return ctx.violated("honest-pipeline-refused", &st, desc, json!({"outcome": o.json()})),
    };
    let (pp, ck, vk) = (&w.pp, &w.ck, &w.vk);
    let max = cfg.max_degree;
    check_srs::<E>(ctx, pp, max, false, &desc, rng);
    let mut bounds = cfg.enforced.clone().unwrap_or_default();
    bounds.sort();
    bounds.dedup();
    let mut issues = Vec::new();
    if ck.powers[..] != pp.powers_of_g[..=cfg.supported_degree] {
        issues.push("ck.powers is not the prefix of the parameters".to_string());
    }
    let want_gamma: Vec<E::G1Affine> = (0..=cfg.supported_hiding + 1).map(|i| pp.powers_of_gamma_g[&i]).collect();
    if ck.powers_of_gamma_g != want_gamma {
        issues.push("ck.powers_of_gamma_g is not gamma powers 0..=hiding+1".into());
    }
    if ck.max_degree != max || PCCommitterKey::max_degree(ck) != max || ck.supported_degree() != cfg.supported_degree {
        issues.push(format!("ck reports max {} supported {}", PCCommitterKey::max_degree(ck), ck.supported_degree()));
    }
    if PCVerifierKey::max_degree(vk) != max || PCVerifierKey::supported_degree(vk) != cfg.supported_degree {
        issues.push(format!("vk reports max {} supported {}", PCVerifierKey::max_degree(vk), PCVerifierKey::supported_degree(vk)));
    }
    if vk.vk.g != pp.powers_of_g[0] || vk.vk.gamma_g != pp.powers_of_gamma_g[&0] || vk.vk.h != pp.h || vk.vk.beta_h != pp.beta_h {
        issues.push("verifier key generators differ from the parameters".into());
    }
    if bounds.is_empty() {
        if ck.shifted_powers.is_some() || vk.degree_bounds_and_shift_powers.is_some() {
            issues.push("shift material present without enforced bounds".into());
        }
    } else {
        let top = *bounds.last().unwrap();
        if ck.enforced_degree_bounds.as_ref() != Some(&bounds) {
            issues.push(format!("enforced bounds {:?} != sorted de-duplicated request {:?}", ck.enforced_degree_bounds, bounds));
        }
        if ck.shifted_powers.as_deref() != Some(&pp.powers_of_g[max - top..]) {
            issues.push("shifted_powers is not the window (max - top bound)..".into());
        }
        let want: Vec<(usize, E::G1Affine)> = bounds.iter().map(|d| (*d, pp.powers_of_g[max - d])).collect();
        if vk.degree_bounds_and_shift_powers.as_ref() != Some(&want) {
            issues.push("degree_bounds_and_shift_powers are not the (max-d)-th powers of exactly the requested bounds".into());
        }
        for d in &bounds {
            if vk.get_shift_power(*d) != Some(pp.powers_of_g[max - d]) {
                issues.push(format!("get_shift_power({}) wrong", d));
            }
        }
    }
    ctx.check(issues.is_empty(), "trim-faithful", "trim", desc.clone(), || json!({"issues": issues}));
    degree_report::<S<E>>(ctx, &w, &desc, rng);
    // out-of-range requests
    let r1 = attempt(|| <PcOf<S<E>>>::trim(pp, max + 1, 1, None));
    ctx.check(refused(r1).is_some(), "trim-out-of-range-refused", "trim", json!({"cfg": cfg.json(), "request": "supported_degree = max+1"}), || json!({"outcome": "Ok(keys)"}));
    let b = [max + 1];
    let r2 = attempt(|| <PcOf<S<E>>>::trim(pp, cfg.supported_degree, 1, Some(&b)));
    ctx.check(refused(r2).is_some(), "trim-out-of-range-refused", "trim", json!({"cfg": cfg.json(), "request": "bound = max+1"}), || json!({"outcome": "Ok(keys)"}));
    let r3 = attempt(|| <PcOf<S<E>>>::trim(pp, cfg.supported_degree, max + 1, None));
    ctx.check(refused(r3).is_some(), "trim-out-of-range-refused", "trim", json!({"cfg": cfg.json(), "request": "hiding = max+1"}), || json!({"outcome": "Ok(keys)"}));
    let r4 = attempt(|| <PcOf<S<E>>>::setup(0, None, rng));
    ctx.check(refused(r4).is_some(), "setup-out-of-range-refused", "setup", json!({"request": "max_degree = 0"}), || json!({"outcome": "Ok(params)"}));
    // prepared tables
    {
        let pvk = marlin_pc::PreparedVerifierKey::<E>::prepare(vk);
        let bits = E::ScalarField::MODULUS_BIT_SIZE as usize;
        let mut ok = doublings(&pvk.prepared_vk.prepared_g, vk.vk.g, bits);
        match (&pvk.prepared_degree_bounds_and_shift_powers, &vk.degree_bounds_and_shift_powers) {
            (Some(p), Some(v)) => {
                ok &= p.len() == v.len();
                for ((d1, t), (d2, s)) in p.iter().zip(v) {
                    ok &= d1 == d2 && doublings(t, *s, bits);
                }
            }
            (None, None) => {}
            _ => ok = false,
        }
        ok &= pvk.max_degree == vk.max_degree && pvk.supported_degree == vk.supported_degree;
        // commitments of every shape: with / without shifted part, identity elements (the commitment to the
        // zero polynomial, with or without a degree bound) included
        let id = kzg10::Commitment::<E>(E::G1Affine::zero());
        let some = kzg10::Commitment::<E>(pp.powers_of_g[max.min(3)]);
        let other = kzg10::Commitment::<E>(pp.powers_of_g[1]);
        let mut bad_shape = None;
        for (k, (comm, shifted)) in [(some, Some(other)), (some, None), (some, Some(id)), (id, Some(id)), (id, None), (id, Some(other))].into_iter().enumerate() {
            let c = marlin_pc::Commitment::<E> { comm, shifted_comm: shifted };
            let pc = marlin_pc::PreparedCommitment::<E>::prepare(&c);
            let (tab, sh) = pc.verif_parts();
            if !(doublings(&tab.0, c.comm.0, bits) && *sh == c.shifted_comm) {
                ok = false;
                bad_shape = Some(k);
            }
        }
        ctx.check(ok, "prepared-tables", "prepare", desc.clone(), || json!({"commitment_shape": bad_shape}));
    }
    interop::<S<E>>(ctx, &w, &desc, rng);
}

fn doublings<G: AffineRepr>(table: &[G], base: G, n: usize) -> bool {
    if table.len() != n {
        return false;
    }
    let mut cur = base.into_group();
    for t in table {
        if cur.into_affine() != *t {
            return false;
        }
        cur = cur + cur;
    }
    true
}

/// supported_degree() is truthful: commit at deg == supported succeeds, at supported+1 is refused.
fn degree_report<S: Scheme>(ctx: &mut Ctx, w: &World<S>, desc: &Value, rng: &mut ChaCha20Rng) {
    let sup = S::max_poly_degree(&w.cfg);
    let at: LPoly<S> = LabeledPolynomial::new("p".into(), S::gen_poly(&w.cfg, Shape::Full, sup, rng), None, None);
    let over: LPoly<S> = LabeledPolynomial::new("p".into(), S::gen_poly(&w.cfg, Shape::Full, sup + 1, rng), None, None);
    let a = commit::<S>(&w.ck, std::slice::from_ref(&at), 1);
    let o = commit::<S>(&w.ck, std::slice::from_ref(&over), 1);
    let rep = w.ck.supported_degree();
    ctx.check(a.is_ok() && o.is_err() && rep == sup, "supported-degree-truthful", "commit", desc.clone(), || json!({"reported": rep, "expected": sup, "commit_at_supported_ok": a.is_ok(), "commit_above_refused": o.is_err()}));
}

/// Keys from two trims of one SRS interoperate: commit/open with the first, check with the second.
fn interop<S: Scheme>(ctx: &mut Ctx, w: &World<S>, desc: &Value, rng: &mut ChaCha20Rng) {
    let cfg = &w.cfg;
    let sup2 = range(rng, cfg.supported_degree, cfg.max_degree);
    let r = attempt(|| PcOf::<S>::trim(&w.pp, sup2, cfg.supported_hiding, None));
    let (_ck2, vk2) = match r {
        Ok(k) => k,
        Err(o) => return ctx.violated("honest-pipeline-refused", "trim", desc.clone(), json!({"outcome": o.json(), "supported": sup2})),
    };
    let deg = below(rng, cfg.supported_degree + 1);
    // with enforced bounds: re-trim with the same bound list and commit under one of them
    let usable: Vec<usize> = usable_bounds::<S>(cfg).into_iter().filter(|b| *b >= deg && *b <= cfg.supported_degree).collect();
    let (vk2, bound) = if S::BOUNDS && S::NAME != "ipa" && !usable.is_empty() && rng.next_u32() % 2 == 0 {
        match attempt(|| PcOf::<S>::trim(&w.pp, sup2, cfg.supported_hiding, cfg.enforced.as_deref())) {
            Ok((_, v)) => (v, Some(usable[below(rng, usable.len())])),
            Err(_) => (vk2, None),
        }
    } else {
        (vk2, None)
    };
    let p: LPoly<S> = LabeledPolynomial::new("p".into(), S::gen_poly(cfg, Shape::Full, deg, rng), bound, None);
    let c = match commit::<S>(&w.ck, std::slice::from_ref(&p), rng.next_u64()) {
        Ok(c) => c,
        Err(_) => return ctx.skipped("keys-interoperate", "commit refused"),
    };
    let z = S::gen_point(cfg, rng);
    let v = p.evaluate(&z);
    let mut sp = crate::probe::sponge::<FOf<S>>(b"c09");
    let mut r = mon_rng(3);
    let proof = match attempt(|| PcOf::<S>::open(&w.ck, [&p], c.comms.iter(), &z, &mut sp, c.states.iter(), Some(&mut r))) {
        Ok(p) => p,
        Err(_) => return ctx.skipped("keys-interoperate", "open refused"),
    };
    let o = check::<S>(&vk2, &[&c.comms[0]], &z, &[v], &proof, &mut crate::probe::sponge::<FOf<S>>(b"c09"), 4);
    ctx.check(o == Out::Accept, "keys-interoperate", "check", desc.clone(), || json!({"outcome": o.json(), "second_supported": sup2, "degree_bound": bound}));
}

fn sonic<E: Pairing + CurveTag>(ctx: &mut Ctx, rng: &mut ChaCha20Rng)
where
    E::ScalarField: ark_crypto_primitives::sponge::Absorb,
{
    type S<E> = SonicS<E>;
    let cfg = <S<E> as Scheme>::gen_cfg(rng, false);
    let desc = json!({"cfg": cfg.json()});
    let w = match make_world::<S<E>>(&cfg, rng) {
        Ok(w) => w,
        Err((st, o)) => return ctx.violated("honest-pipeline-refused", &st, desc, json!({"outcome": o.json()})),
    };
    let (pp, ck, vk) = (&w.pp, &w.ck, &w.vk);
    let max = cfg.max_degree;
    check_srs::<E>(ctx, pp, max, true, &desc, rng);
    let mut bounds = cfg.enforced.clone().unwrap_or_default();
    bounds.sort();
    bounds.dedup();
    let mut issues = Vec::new();
    if ck.powers_of_g[..] != pp.powers_of_g[..=cfg.supported_degree] {
        issues.push("ck.powers_of_g is not the prefix of the parameters".to_string());
    }
    let want_gamma: Vec<E::G1Affine> = (0..=cfg.supported_hiding + 1).map(|i| pp.powers_of_gamma_g[&i]).collect();
    if ck.powers_of_gamma_g != want_gamma {
        issues.push("ck.powers_of_gamma_g is not gamma powers 0..=hiding+1".into());
    }
    if ck.max_degree != max || ck.supported_degree() != cfg.supported_degree || vk.max_degree != max || vk.supported_degree != cfg.supported_degree {
        issues.push("degree reports differ from the request".into());
    }
    if vk.g != pp.powers_of_g[0] || vk.gamma_g != pp.powers_of_gamma_g[&0] || vk.h != pp.h || vk.beta_h != pp.beta_h {
        issues.push("verifier key generators differ from the parameters".into());
    }
    let g = pp.powers_of_g[0];
    if E::multi_pairing([g], [vk.prepared_h.clone()]) != E::pairing(g, vk.h) || E::multi_pairing([g], [vk.prepared_beta_h.clone()]) != E::pairing(g, vk.beta_h) {
        issues.push("vk prepared elements do not match the raw ones".into());
    }
    if bounds.is_empty() {
        if ck.shifted_powers_of_g.is_some() || ck.shifted_powers_of_gamma_g.is_some() || vk.degree_bounds_and_neg_powers_of_h.is_some() {
            issues.push("shift material present without enforced bounds".into());
        }
    } else {
        let top = *bounds.last().unwrap();
        if ck.enforced_degree_bounds.as_ref() != Some(&bounds) {
            issues.push("enforced bounds are not the sorted de-duplicated request".into());
        }
        if ck.shifted_powers_of_g.as_deref() != Some(&pp.powers_of_g[max - top..]) {
            issues.push("shifted_powers_of_g is not the window (max - top bound)..".into());
        }
        match &ck.shifted_powers_of_gamma_g {
            None => issues.push("shifted gamma powers missing".into()),
            Some(m) => {
                if m.keys().copied().collect::<Vec<_>>() != bounds {
                    issues.push("shifted gamma powers keyed by other bounds".into());
                }
                for d in &bounds {
                    let want: Vec<E::G1Affine> = (0..=cfg.supported_hiding + 1).filter(|i| max - d + i < max + 2).map(|i| pp.powers_of_gamma_g[&(max - d + i)]).collect();
                    if m.get(d) != Some(&want) {
                        issues.push(format!("shifted gamma powers for bound {} wrong", d));
                    }
                }
            }
        }
        let want: Vec<(usize, E::G2Affine)> = bounds.iter().map(|d| (*d, pp.neg_powers_of_h[&(max - d)])).collect();
        if vk.degree_bounds_and_neg_powers_of_h.as_ref() != Some(&want) {
            issues.push("degree_bounds_and_neg_powers_of_h are not the (max-d)-th inverse powers of exactly the requested bounds".into());
        }
    }
    ctx.check(issues.is_empty(), "trim-faithful", "trim", desc.clone(), || json!({"issues": issues}));
    degree_report::<S<E>>(ctx, &w, &desc, rng);
    let r1 = attempt(|| <PcOf<S<E>>>::trim(pp, max + 1, 1, None));
    ctx.check(refused(r1).is_some(), "trim-out-of-range-refused", "trim", json!({"cfg": cfg.json(), "request": "supported_degree = max+1"}), || json!({"outcome": "Ok(keys)"}));
    if cfg.supported_degree < max {
        let b = [cfg.supported_degree + 1];
        let r2 = attempt(|| <PcOf<S<E>>>::trim(pp, cfg.supported_degree, 1, Some(&b)));
        ctx.check(refused(r2).is_some(), "trim-out-of-range-refused", "trim", json!({"cfg": cfg.json(), "request": "bound = supported+1"}), || json!({"outcome": "Ok(keys)"}));
    }
    let r3 = attempt(|| <PcOf<S<E>>>::trim(pp, cfg.supported_degree, max + 1, None));
    ctx.check(refused(r3).is_some(), "trim-out-of-range-refused", "trim", json!({"cfg": cfg.json(), "request": "hiding = max+1"}), || json!({"outcome": "Ok(keys)"}));
    {
        let c = kzg10::Commitment::<E>(pp.powers_of_g[max.min(2)]);
        let pc = <sonic_pc::PreparedCommitment<E> as PCPreparedCommitment<sonic_pc::Commitment<E>>>::prepare(&c);
        ctx.check(doublings(&pc.0, c.0, 128), "prepared-tables", "prepare", desc.clone(), || json!({"len": pc.0.len()}));
    }
    interop::<S<E>>(ctx, &w, &desc, rng);
}

fn derive_generators<G: AffineRepr>(protocol: &[u8], n: usize) -> Vec<G> {
    use blake2::Blake2s256;
    use digest::Digest;
    (0..n as u64)
        .map(|i| {
            let mut bytes = protocol.to_vec();
            bytes.extend(i.to_le_bytes());
            let mut g = G::from_random_bytes(&Blake2s256::digest(&bytes));
            let mut j = 0u64;
            while g.is_none() {
                let mut b = protocol.to_vec();
                b.extend(i.to_le_bytes());
                b.extend(j.to_le_bytes());
                g = G::from_random_bytes(&Blake2s256::digest(&b));
                j += 1;
            }
            g.unwrap().mul_by_cofactor_to_group().into_affine()
        })
        .collect()
}

fn ipa(ctx: &mut Ctx, rng: &mut ChaCha20Rng) {
    let cfg = IpaS::gen_cfg(rng, false);
    ipa_cfg(ctx, rng, cfg)
}

/// 4096 .. 16384 generators, supported degree anywhere below
fn ipa_wide(ctx: &mut Ctx, idx: u64, rng: &mut ChaCha20Rng) {
    let max_degree = [4095usize, 8191, 5000, 8192][(idx % 4) as usize];
    let supported_degree = if rng.next_u32() % 2 == 0 { max_degree } else { range(rng, 1, max_degree) };
    let cfg = Cfg { max_degree, num_vars: None, supported_degree, supported_hiding: 1, enforced: None };
    ipa_cfg(ctx, rng, cfg)
}

fn ipa_cfg(ctx: &mut Ctx, rng: &mut ChaCha20Rng, cfg: Cfg) {
    type S = IpaS;
    let desc = json!({"cfg": cfg.json()});
    let w = match make_world::<S>(&cfg, rng) {
        Ok(w) => w,
        Err((st, o)) => return ctx.violated("honest-pipeline-refused", &st, desc, json!({"outcome": o.json()})),
    };
    let maxr = (cfg.max_degree + 1).next_power_of_two() - 1;
    let supr = (cfg.supported_degree + 1).next_power_of_two() - 1;
    let mut all = w.pp.comm_key.clone();
    all.push(w.pp.s);
    all.push(w.pp.h);
    let want = derive_generators::<JubJub>(b"PC-DL-2020", maxr + 3);
    let mut issues = Vec::new();
    if w.pp.comm_key.len() != maxr + 1 || PCUniversalParams::max_degree(&w.pp) != maxr {
        issues.push(format!("{} generators for rounded max degree {}", w.pp.comm_key.len(), maxr));
    }
    if all != want {
        issues.push("generators differ from the re-derivation from the protocol seed".into());
    }
    if !all_valid(&all) || !all_distinct(&all) {
        issues.push("identity, invalid or repeated generator".into());
    }
    // determinism: the caller's RNG must not matter
    let mut other = mon_rng(99);
    if let Ok(pp2) = attempt(|| <PcOf<S>>::setup(cfg.max_degree, None, &mut other)) {
        if crate::ju::ser(&pp2) != crate::ju::ser(&w.pp) {
            issues.push("setup is not deterministic".into());
        }
    }
    ctx.check(issues.is_empty(), "transparent-generators", "setup", desc.clone(), || json!({"issues": issues}));
    let mut t = Vec::new();
    if w.ck.comm_key[..] != w.pp.comm_key[..=supr] || w.vk.comm_key[..] != w.pp.comm_key[..=supr] {
        t.push("trimmed generators are not the prefix".to_string());
    }
    if w.ck.h != w.pp.h || w.ck.s != w.pp.s || w.vk.h != w.pp.h || w.vk.s != w.pp.s {
        t.push("h / s differ".into());
    }
    if w.ck.max_degree != maxr || PCCommitterKey::supported_degree(&w.ck) != supr || PCVerifierKey::supported_degree(&w.vk) != supr {
        t.push("degree reports wrong".into());
    }
    ctx.check(t.is_empty(), "trim-faithful", "trim", desc.clone(), || json!({"issues": t}));
    degree_report::<S>(ctx, &w, &desc, rng);
    let r1 = attempt(|| <PcOf<S>>::trim(&w.pp, maxr + 1, 1, None));
    ctx.check(refused(r1).is_some(), "trim-out-of-range-refused", "trim", json!({"cfg": cfg.json(), "request": "supported_degree beyond rounded max"}), || json!({"outcome": "Ok(keys)"}));
}

fn hyrax(ctx: &mut Ctx, rng: &mut ChaCha20Rng) {
    let cfg = HyraxS::gen_cfg(rng, ctx.is_thorough());
    hyrax_cfg(ctx, rng, cfg)
}

/// Parameters for 14..24 variables (128..4096 generators): only setup and trim are run and judged - the
/// generator list is cheap to produce and to re-derive at sizes no commit / open workload reaches.
fn hyrax_wide(ctx: &mut Ctx, idx: u64, rng: &mut ChaCha20Rng) {
    let nv = [16usize, 18, 14, 20, 22, 24][(idx % 6) as usize];
    let cfg = Cfg { max_degree: 1, num_vars: Some(nv), supported_degree: 1, supported_hiding: 1, enforced: None };
    hyrax_cfg(ctx, rng, cfg)
}

fn hyrax_cfg(ctx: &mut Ctx, rng: &mut ChaCha20Rng, cfg: Cfg) {
    type S = HyraxS;
    let desc = json!({"cfg": cfg.json()});
    let w = match make_world::<S>(&cfg, rng) {
        Ok(w) => w,
        Err((st, o)) => return ctx.violated("honest-pipeline-refused", &st, desc, json!({"outcome": o.json()})),
    };
    let dim = 1usize << (cfg.num_vars.unwrap() / 2);
    let mut all = w.pp.com_key.clone();
    all.push(w.pp.h);
    let want = derive_generators::<JubJub>(b"Hyrax protocol", dim + 1);
    let mut issues = Vec::new();
    if w.pp.com_key.len() != dim {
        issues.push(format!("{} generators for dimension {}", w.pp.com_key.len(), dim));
    }
    if all != want {
        issues.push("generators differ from the re-derivation from the protocol seed".into());
    }
    if !all_valid(&all) || !all_distinct(&all) {
        issues.push("identity, invalid or repeated generator".into());
    }
    ctx.check(issues.is_empty(), "transparent-generators", "setup", desc.clone(), || json!({"issues": issues}));
    let same = crate::ju::ser(&w.ck) == crate::ju::ser(&w.pp) && crate::ju::ser(&w.vk) == crate::ju::ser(&w.pp);
    ctx.check(same, "trim-faithful", "trim", desc.clone(), || json!({}));
    let nv = cfg.num_vars.unwrap();
    let r = attempt(|| <PcOf<S>>::setup(1, Some(nv + 1), rng));
    ctx.check(refused(r).is_some(), "setup-out-of-range-refused", "setup", json!({"request": "odd num_vars"}), || json!({"outcome": "Ok(params)"}));
    let r = attempt(|| <PcOf<S>>::setup(1, None, rng));
    ctx.check(refused(r).is_some(), "setup-out-of-range-refused", "setup", json!({"request": "num_vars = None"}), || json!({"outcome": "Ok(params)"}));
}

fn pst13(ctx: &mut Ctx, rng: &mut ChaCha20Rng) {
    type E = E381;
    type S = Pst13S<E381>;
    let cfg = S::gen_cfg(rng, false);
    let desc = json!({"cfg": cfg.json()});
    let w = match make_world::<S>(&cfg, rng) {
        Ok(w) => w,
        Err((st, o)) => return ctx.violated("honest-pipeline-refused", &st, desc, json!({"outcome": o.json()})),
    };
    let pp = &w.pp;
    let nv = cfg.num_vars.unwrap();
    let mut issues = Vec::new();
    {
        // independent trapdoors: per-variable G2 elements and G1 elements of distinct monomials pairwise different
        let g2: std::collections::BTreeSet<Vec<u8>> = pp.beta_h.iter().map(crate::ju::ser).collect();
        let g1: std::collections::BTreeSet<Vec<u8>> = pp.powers_of_g.values().map(crate::ju::ser).collect();
        if g2.len() != pp.beta_h.len() || g1.len() != pp.powers_of_g.len() {
            issues.push("published elements of distinct variables / monomials coincide (trapdoors not independent)".into());
        }
    }
    if pp.num_vars != nv || pp.max_degree != cfg.max_degree || pp.beta_h.len() != nv || pp.powers_of_gamma_g.len() != nv {
        issues.push("parameter shape differs from the request".to_string());
    }
    for i in 0..nv.min(pp.powers_of_gamma_g.len()) {
        let tab = &pp.powers_of_gamma_g[i];
        if tab.len() != cfg.max_degree + 1 {
            issues.push(format!("gamma table {} has {} entries", i, tab.len()));
            continue;
        }
        // tab[0] = beta_i * gamma_g, tab[j+1] = beta_i * tab[j]
        let mut chain = vec![pp.gamma_g];
        chain.extend_from_slice(tab);
        if let Err(j) = chain_g1::<E>(&chain, pp.h, pp.beta_h[i], rng) {
            issues.push(format!("gamma table {} breaks at {}", i, j));
        }
    }
    let g = pp.gamma_g;
    let mut prep_ok = <E as Pairing>::multi_pairing([g], [pp.prepared_h.clone()]) == <E as Pairing>::pairing(g, pp.h) && pp.prepared_beta_h.len() == nv;
    for i in 0..nv.min(pp.prepared_beta_h.len()) {
        prep_ok &= <E as Pairing>::multi_pairing([g], [pp.prepared_beta_h[i].clone()]) == <E as Pairing>::pairing(g, pp.beta_h[i]);
    }
    if !prep_ok {
        issues.push("prepared elements do not match".into());
    }
    ctx.check(issues.is_empty(), "srs-powers", "setup", desc.clone(), || json!({"issues": issues}));
    let mut t = Vec::new();
    use ark_poly::multivariate::Term;
    let want: std::collections::BTreeMap<_, _> = pp.powers_of_g.iter().filter(|(k, _)| k.degree() <= cfg.supported_degree).map(|(k, v)| (k.clone(), *v)).collect();
    if w.ck.powers_of_g != want {
        t.push("ck.powers_of_g is not the sub-map of degree <= supported".to_string());
    }
    let wantg: Vec<Vec<_>> = pp.powers_of_gamma_g.iter().map(|e| e[..=cfg.supported_degree].to_vec()).collect();
    if w.ck.powers_of_gamma_g != wantg || w.ck.gamma_g != pp.gamma_g {
        t.push("ck gamma tables wrong".into());
    }
    if w.ck.num_vars != nv || w.ck.supported_degree != cfg.supported_degree || w.ck.max_degree != cfg.max_degree {
        t.push("ck reports wrong".into());
    }
    let one = ark_poly::multivariate::SparseTerm::new(vec![]);
    if w.vk.g != pp.powers_of_g[&one] || w.vk.gamma_g != pp.gamma_g || w.vk.h != pp.h || w.vk.beta_h != pp.beta_h || w.vk.num_vars != nv
        || w.vk.supported_degree != cfg.supported_degree || w.vk.max_degree != cfg.max_degree
    {
        t.push("vk differs from the parameters".into());
    }
    ctx.check(t.is_empty(), "trim-faithful", "trim", desc.clone(), || json!({"issues": t}));
    degree_report::<S>(ctx, &w, &desc, rng);
    let r1 = attempt(|| <PcOf<S>>::trim(pp, cfg.max_degree + 1, 1, None));
    ctx.check(refused(r1).is_some(), "trim-out-of-range-refused", "trim", json!({"cfg": cfg.json(), "request": "supported_degree = max+1"}), || json!({"outcome": "Ok(keys)"}));
    for (nvr, md, what) in [(None, 2usize, "num_vars None"), (Some(0), 2, "num_vars 0"), (Some(2), 0, "max_degree 0")] {
        let r = attempt(|| <PcOf<S>>::setup(md, nvr, rng));
        ctx.check(refused(r).is_some(), "setup-out-of-range-refused", "setup", json!({"request": what}), || json!({"outcome": "Ok(params)"}));
    }
    interop::<S>(ctx, &w, &desc, rng);
}

fn mlpst(ctx: &mut Ctx, rng: &mut ChaCha20Rng) {
    use ark_poly_commit::multilinear_pc::MultilinearPC;
    type E = E381;
    type F = ark_bls12_381::Fr;
    let nv = range(rng, 1, if ctx.is_thorough() { 8 } else { 6 });
    let desc = json!({"num_vars": nv});
    let pp = match guard(|| MultilinearPC::<E>::setup(nv, rng)) {
        Ok(p) => p,
        Err(p) => return ctx.violated("honest-pipeline-refused", "MultilinearPC::setup", desc, json!({"panic": p})),
    };
    let mut issues = Vec::new();
    if pp.num_vars != nv || pp.powers_of_g.len() != nv || pp.powers_of_h.len() != nv || pp.g_mask.len() != nv {
        issues.push("shape".to_string());
    } else {
        for k in 0..nv {
            if pp.powers_of_g[k].len() != 1 << (nv - k) || pp.powers_of_h[k].len() != 1 << (nv - k) {
                issues.push(format!("level {} has {} elements", k, pp.powers_of_g[k].len()));
            }
        }
    }
    if issues.is_empty() {
        // sum_x eq(t,x) = 1 and sum_x x_i eq(t,x) = t_i pin level 0 to one trapdoor point
        let l0 = &pp.powers_of_g[0];
        let total: <E as Pairing>::G1 = l0.iter().map(|p| p.into_group()).sum();
        if total.into_affine() != pp.g {
            issues.push("level-0 G1 elements do not sum to g".into());
        }
        for i in 0..nv {
            let s: <E as Pairing>::G1 = l0.iter().enumerate().filter(|(x, _)| (x >> i) & 1 == 1).map(|(_, p)| p.into_group()).sum();
            if s.into_affine() != pp.g_mask[i] {
                issues.push(format!("sum over x_{}=1 differs from g_mask[{}]", i, i));
            }
        }
        // every level k+1 element is the sum of its two children at level k; G1 and G2 tables carry the same scalars
        for k in 0..nv {
            let w = weights::<F>(pp.powers_of_g[k].len(), rng);
            let a = comb(&pp.powers_of_g[k], &w);
            let b: <E as Pairing>::G2 = pp.powers_of_h[k].iter().zip(&w).map(|(x, r)| x.mul(*r)).sum();
            if <E as Pairing>::pairing(a, pp.h) != <E as Pairing>::pairing(pp.g, b) {
                issues.push(format!("G1/G2 tables differ at level {}", k));
            }
            if k + 1 < nv {
                for y in 0..pp.powers_of_g[k + 1].len() {
                    let s = pp.powers_of_g[k][2 * y].into_group() + pp.powers_of_g[k][2 * y + 1];
                    if s.into_affine() != pp.powers_of_g[k + 1][y] {
                        issues.push(format!("level {} element {} is not the sum of its children", k + 1, y));
                        break;
                    }
                }
            }
        }
        // g_mask[i] = t_i * g and the last level is (1-t_{nv-1}, t_{nv-1}) * g
        let last = &pp.powers_of_g[nv - 1];
        if last[1] != pp.g_mask[nv - 1] || (last[0].into_group() + last[1]).into_affine() != pp.g {
            issues.push("last level inconsistent with g_mask".into());
        }
    }
    ctx.check(issues.is_empty(), "srs-powers", "MultilinearPC::setup", desc.clone(), || json!({"issues": issues}));
    let snv = range(rng, 1, nv);
    if let Ok((ck, vk)) = guard(|| MultilinearPC::<E>::trim(&pp, snv)) {
        let red = nv - snv;
        let ok = ck.nv == snv && vk.nv == snv && ck.powers_of_g == pp.powers_of_g[red..].to_vec() && ck.powers_of_h == pp.powers_of_h[red..].to_vec()
            && ck.g == pp.g && ck.h == pp.h && vk.g == pp.g && vk.h == pp.h && vk.g_mask_random == pp.g_mask[red..].to_vec();
        ctx.check(ok, "trim-faithful", "MultilinearPC::trim", json!({"num_vars": nv, "supported": snv}), || json!({}));
    }
    let r = guard(|| MultilinearPC::<E>::trim(&pp, nv + 1));
    ctx.check(r.is_err(), "trim-out-of-range-refused", "MultilinearPC::trim", json!({"num_vars": nv, "request": nv + 1}), || json!({"outcome": "Ok(keys)"}));
    let r = guard(|| MultilinearPC::<E>::setup(0, rng));
    ctx.check(r.is_err(), "setup-out-of-range-refused", "MultilinearPC::setup", json!({"request": "num_vars 0"}), || json!({"outcome": "Ok(params)"}));
}

fn streaming(ctx: &mut Ctx, rng: &mut ChaCha20Rng) {
    use ark_poly_commit::streaming_kzg::{CommitterKey, VerifierKey};
    type E = E381;
    let max = skewed(rng, 1, 64);
    let pts = range(rng, 1, 8);
    let desc = json!({"max_degree": max, "max_eval_points": pts});
    let ck = match guard(|| CommitterKey::<E>::new(max, pts, rng)) {
        Ok(c) => c,
        Err(p) => return ctx.violated("honest-pipeline-refused", "streaming::CommitterKey::new", desc, json!({"panic": p})),
    };
    let (g1, g2) = ck.verif_powers();
    let mut issues = Vec::new();
    if g1.len() != max + 1 {
        issues.push(format!("{} G1 powers", g1.len()));
    }
    let want2 = (pts + 1).min(max + 1);
    if g2.len() != want2 {
        issues.push(format!("{} G2 powers, expected {}", g2.len(), want2));
    }
    if g2.len() >= 2 {
        if let Err(i) = chain_g1::<E>(g1, g2[0], g2[1], rng) {
            issues.push(format!("G1 power {} is not tau * previous", i));
        }
        for j in 0..g2.len() - 1 {
            if <E as Pairing>::pairing(g1[0], g2[j + 1]) != <E as Pairing>::pairing(g1[1], g2[j]) {
                issues.push(format!("G2 power {} is not tau * previous", j + 1));
            }
        }
    }
    if !all_valid(g1) {
        issues.push("identity or invalid G1 power".into());
    }
    ctx.check(issues.is_empty(), "srs-powers", "streaming::CommitterKey::new", desc.clone(), || json!({"issues": issues}));
    let vk = VerifierKey::from(&ck);
    let (v1, v2) = vk.verif_parts();
    let m = ck.max_eval_points();
    ctx.check(v2 == &g2[..m + 1] && v1 == &g1[..m], "trim-faithful", "streaming::VerifierKey::from", desc, || json!({"vk_g1": v1.len(), "vk_g2": v2.len()}));
}

fn linear<S: Scheme>(ctx: &mut Ctx, rng: &mut ChaCha20Rng)
where
    CkOf<S>: ark_poly_commit::linear_codes::LinCodeParametersInfo<MtParams, ColHasher<LFr>>,
{
    use ark_poly_commit::linear_codes::LinCodeParametersInfo;
    let cfg = S::gen_cfg(rng, false);
    let desc = json!({"cfg": cfg.json()});
    let w = match make_world::<S>(&cfg, rng) {
        Ok(w) => w,
        Err((st, o)) => return ctx.violated("honest-pipeline-refused", &st, desc, json!({"outcome": o.json()})),
    };
    let same = crate::ju::ser(&w.ck) == crate::ju::ser(&w.pp) && crate::ju::ser(&w.vk) == crate::ju::ser(&w.pp);
    ctx.check(same, "trim-faithful", "trim", desc.clone(), || json!({}));
    let (d0, d1) = w.ck.distance();
    let ok = w.ck.sec_param() == 128 && w.ck.check_well_formedness() && d0 > 0 && d0 < d1;
    ctx.check(ok, "code-parameters", "setup", desc.clone(), || json!({"sec_param": w.ck.sec_param(), "distance": [d0, d1]}));
    if S::NAME.starts_with("ligero") {
        // beyond the FFT capacity of the field
        let r = attempt(|| PcOf::<S>::setup(usize::MAX, cfg.num_vars, rng));
        ctx.check(r.is_err(), "setup-out-of-range-refused", "setup", json!({"request": "max_degree = usize::MAX"}), || json!({"outcome": "Ok(params)"}));
    } else {
        let r = attempt(|| PcOf::<S>::setup(1, None, rng));
        ctx.check(r.is_err(), "setup-out-of-range-refused", "setup", json!({"request": "num_vars None"}), || json!({"outcome": "Ok(params)"}));
    }
}

pub fn run(ctx: &mut Ctx) {
    let n = ctx.n(60, 1200);
    ctx.run_cases("marlin", n, |ctx, _i, rng| marlin::<E381>(ctx, rng));
    ctx.run_cases("sonic", n, |ctx, _i, rng| sonic::<E381>(ctx, rng));
    ctx.run_cases("ipa", n, |ctx, _i, rng| ipa(ctx, rng));
    ctx.run_cases("hyrax", n / 2, |ctx, _i, rng| hyrax(ctx, rng));
    ctx.run_cases("pst13", n / 2, |ctx, _i, rng| pst13(ctx, rng));
    ctx.run_cases("mlpst", n, |ctx, _i, rng| mlpst(ctx, rng));
    ctx.run_cases("streaming", n, |ctx, _i, rng| streaming(ctx, rng));
    ctx.run_cases("ligero-uni", n / 2, |ctx, _i, rng| linear::<UniLigeroS>(ctx, rng));
    ctx.run_cases("ligero-ml", n / 2, |ctx, _i, rng| linear::<MlLigeroS>(ctx, rng));
    ctx.run_cases("brakedown", n / 4, |ctx, _i, rng| linear::<BrakedownS>(ctx, rng));
    // keys for more than a thousand coefficients
    set_large(true);
    let nl = if ctx.is_thorough() { 6 } else { 2 };
    ctx.run_cases("marlin/large", nl, |ctx, _i, rng| marlin::<E381>(ctx, rng));
    ctx.run_cases("sonic/large", nl, |ctx, _i, rng| sonic::<E381>(ctx, rng));
    ctx.run_cases("ipa/large", nl, |ctx, _i, rng| ipa(ctx, rng));
    ctx.run_cases("hyrax/large", nl, |ctx, _i, rng| hyrax(ctx, rng));
    ctx.run_cases("ipa/wide-setup", if ctx.is_thorough() { 8 } else { 2 }, |ctx, i, rng| ipa_wide(ctx, i, rng));
    ctx.run_cases("hyrax/wide-setup", if ctx.is_thorough() { 12 } else { 6 }, |ctx, i, rng| hyrax_wide(ctx, i, rng));
    ctx.run_cases("pst13/large", nl / 2, |ctx, _i, rng| pst13(ctx, rng));
    set_large(false);
    if ctx.is_thorough() {
        ctx.run_cases("marlin-377", n / 3, |ctx, _i, rng| marlin::<E377>(ctx, rng));
        ctx.run_cases("sonic-377", n / 3, |ctx, _i, rng| sonic::<E377>(ctx, rng));
    }
    let _ = (DensePolynomial::<LFr>::zero(), <LFr as Zero>::zero());
}
