//! C05 — batched verification is as strict as verifying every query on its own.
use crate::for_each_scheme;
use crate::probe::Sp;
use crate::rt::{Ctx, Out};
use crate::scen::*;
use crate::schemes::{below, range, Scheme};
use ark_ff::{UniformRand, Zero};
use ark_poly_commit::Evaluations;
use rand_chacha::ChaCha20Rng;
use rand_core::RngCore;
use serde_json::{json, Value};

/// Reference: per-point `check` calls in the library's BTreeMap group order, threading one sponge.
/// Returns true iff every per-point check accepts (missing proofs count as not accepted).
fn per_point<S: Scheme>(
    tx: &Tx<S>,
    groups: &[(String, PtOf<S>, Vec<String>)],
    evals: &Evaluations<PtOf<S>, FOf<S>>,
    proofs: &[ProofOf<S>],
    sp: &mut Sp<FOf<S>>,
) -> (bool, Vec<Value>) {
    let mut all = true;
    let mut outs = Vec::new();
    if proofs.len() != groups.len() {
        return (false, vec![json!("proof count differs from number of point labels")]);
    }
    for (g, proof) in groups.iter().zip(proofs) {
        let comms: Vec<&LComm<S>> = g.2.iter().map(|l| &tx.c.comms[tx.idx_of(l)]).collect();
        let values: Vec<FOf<S>> = g.2.iter().map(|l| evals[&(l.clone(), g.1.clone())]).collect();
        let o = check::<S>(&tx.w.vk, &comms, &g.1, &values, proof, sp, 77);
        if o != Out::Accept {
            all = false;
        }
        outs.push(o.json());
    }
    (all, outs)
}

/// Squeeze schedule of the overriding batch verifiers: for a group with the given bounded-flags,
/// the index (within the group's squeezes) of each polynomial's value challenge and the group's
/// total number of squeezed elements.
fn squeeze_schedule(name: &str) -> Option<fn(&[bool]) -> (Vec<usize>, usize)> {
    fn marlin(b: &[bool]) -> (Vec<usize>, usize) {
        let mut idx = Vec::new();
        let mut o = 0;
        for x in b {
            idx.push(o);
            o += 1 + *x as usize;
        }
        (idx, o)
    }
    fn sonic(b: &[bool]) -> (Vec<usize>, usize) {
        ((0..b.len()).collect(), b.len() + 1)
    }
    fn ipa(b: &[bool]) -> (Vec<usize>, usize) {
        ((0..b.len()).map(|j| 2 * j).collect(), 2 * b.len() + 1)
    }
    if name.starts_with("marlin") || name.starts_with("pst13") {
        Some(marlin)
    } else if name.starts_with("sonic") {
        Some(sonic)
    } else if name == "ipa" {
        Some(ipa)
    } else {
        None
    }
}

/// Challenge-aware errors cancelling ACROSS points: the per-polynomial opening challenges are public (squeezed
/// from the caller's sponge), the verifier's batching randomizers are not. An error pair (d1, -d1*xi1/xi2) on
/// unbounded polynomials of two different point labels makes the combined values of both points wrong by
/// amounts that cancel iff the two points get the same randomizer. One pair per pair of point labels.
pub fn challenge_aware_across_points<S: Scheme>(
    ctx: &mut Ctx,
    tx: &Tx<S>,
    q: &Queries<S>,
    proof: &BatchProofOf<S>,
    proofs: &[ProofOf<S>],
    vcomms: &[LComm<S>],
    txj: &Value,
    rng: &mut ChaCha20Rng,
    class: &str,
    with_reference: bool,
) {
    if let Some(sched) = squeeze_schedule(S::NAME) {
        let mut spv = tx.sponge();
        let _ = batch_check::<S>(&tx.w.vk, vcomms, &q.qs, &q.evals, proof, &mut spv, 5);
        let ch: Vec<FOf<S>> = spv.squeezed_fes();
        // locate, per group, the challenge of each unbounded polynomial
        let mut off = 0usize;
        let mut slots: Vec<(usize, String, PtOf<S>, FOf<S>)> = Vec::new();
        for (gi, g) in q.groups.iter().enumerate() {
            let bounded: Vec<bool> = g.2.iter().map(|l| tx.c.comms[tx.idx_of(l)].degree_bound().is_some()).collect();
            let (idxs, count) = sched(&bounded);
            for (j, l) in g.2.iter().enumerate() {
                if !bounded[j] && off + idxs[j] < ch.len() {
                    slots.push((gi, l.clone(), g.1.clone(), ch[off + idxs[j]]));
                }
            }
            off += count;
        }
        let mut done = 0;
        if off == ch.len() {
            // one slot pair per PAIR OF POINT LABELS (later pairs first: a verifier may treat its first entry
            // differently from the rest), at most six pairs
            let mut pairs: Vec<(usize, usize)> = Vec::new();
            for ga in (0..q.groups.len()).rev() {
                for gb in (0..ga).rev() {
                    let sa: Vec<usize> = (0..slots.len()).filter(|&i| slots[i].0 == ga && !slots[i].3.is_zero()).collect();
                    let sb: Vec<usize> = (0..slots.len()).filter(|&i| slots[i].0 == gb && !slots[i].3.is_zero()).collect();
                    if !sa.is_empty() && !sb.is_empty() {
                        pairs.push((sa[below(rng, sa.len())], sb[below(rng, sb.len())]));
                    }
                }
            }
            for (a, b) in pairs {
                {
                    if done >= 6 {
                        continue;
                    }
                    // two different point labels; if they share the point VALUE and the polynomial, the key coincides
                    if slots[a].1 == slots[b].1 && slots[a].2 == slots[b].2 {
                        continue;
                    }
                    let d1 = loop {
                        let d = FOf::<S>::rand(rng);
                        if !d.is_zero() {
                            break d;
                        }
                    };
                    let d2 = -d1 * slots[b].3 * ark_ff::Field::inverse(&slots[a].3).unwrap();
                    let mut ev = q.evals.clone();
                    *ev.get_mut(&(slots[b].1.clone(), slots[b].2.clone())).unwrap() += d1;
                    *ev.get_mut(&(slots[a].1.clone(), slots[a].2.clone())).unwrap() += d2;
                    // a value shared by two point labels is perturbed in both groups: skip those shapes
                    let shared = q.groups.iter().filter(|g| g.1 == slots[a].2 && g.2.contains(&slots[a].1)).count() > 1
                        || q.groups.iter().filter(|g| g.1 == slots[b].2 && g.2.contains(&slots[b].1)).count() > 1;
                    if shared {
                        continue;
                    }
                    let (refd, routs) = per_point::<S>(tx, &q.groups, &ev, proofs, &mut tx.sponge());
                    let o = batch_check::<S>(&tx.w.vk, vcomms, &q.qs, &ev, proof, &mut tx.sponge(), rng.next_u64());
                    let mut dj = txj.clone();
                    dj["pair"] = json!([slots[b].1, slots[a].1]);
                    dj["groups"] = json!([slots[b].0, slots[a].0]);
                    ctx.count("cancelling:challenge-aware-across-points", 1);
                    if with_reference {
                        ctx.check(o.is_accept() == refd, "batch-vs-single-mismatch", "batch_check", dj.clone(), || json!({"batch": o.json(), "per_point_all_accept": refd, "per_point": routs}));
                    }
                    ctx.check(!o.is_accept(), class, "batch_check", dj, || json!({"batch": o.json()}));
                    done += 1;
                }
            }
        } else {
            ctx.count("schedule-mismatch", 1);
        }
        // the batch verifier takes from the caller's sponge exactly the per-polynomial opening challenges (its batching
        // randomizers come from the verifier's own RNG; a randomizer squeezed from the public transcript is predictable)
        if with_reference {
            ctx.check(off == ch.len(), "verifier-squeezes-only-opening-challenges", "batch_check", txj.clone(), || json!({"squeezed_elements": ch.len(), "opening_challenges": off}));
        }
    }
}

fn case<S: Scheme>(ctx: &mut Ctx, rng: &mut ChaCha20Rng) {
    let thorough = ctx.is_thorough();
    let tx = match gen_tx::<S>(rng, thorough, 4) {
        Ok(t) if t.polys.len() >= 2 => t,
        Ok(_) => return ctx.skipped("baseline", "fewer than two polynomials"),
        Err(_) => return ctx.skipped("baseline", "honest pipeline refused (reported under C01/C17)"),
    };
    let k = range(rng, 2, 4);
    let q = gen_queries::<S>(&tx.w.cfg, &tx.polys, k, rng);
    let ident: Vec<usize> = (0..tx.polys.len()).collect();
    let proof = match batch_open::<S>(&tx, &ident, &q.qs, &mut tx.sponge(), rng.next_u64()) {
        Ok(p) => p,
        Err(_) => return ctx.skipped("baseline", "honest batch_open refused (reported under C01)"),
    };
    let proofs: Vec<ProofOf<S>> = proof.clone().into();
    let txj = json!({"tx": tx.json(), "queries": q.json()});
    let vperm = permutation(tx.polys.len(), rng);
    let vcomms = permuted(&tx.c.comms, &vperm);

    // (i) all true, with verifier-seed invariance
    {
        let (refd, routs) = per_point::<S>(&tx, &q.groups, &q.evals, &proofs, &mut tx.sponge());
        let mut outs = Vec::new();
        for s in 0..4u64 {
            outs.push(batch_check::<S>(&tx.w.vk, &vcomms, &q.qs, &q.evals, &proof, &mut tx.sponge(), 1000 + s * 7919));
        }
        let same = outs.iter().all(|o| o.is_accept() == outs[0].is_accept());
        ctx.check(same, "verifier-seed-invariance", "batch_check", txj.clone(), || json!({"outcomes": outs.iter().map(|o| o.json()).collect::<Vec<_>>()}));
        let ok = outs[0].is_accept() == refd && refd;
        ctx.check(ok, "all-true-accepted", "batch_check", txj.clone(), || json!({"batch": outs[0].json(), "per_point": routs}));
    }
    let keys: Vec<_> = q.evals.keys().cloned().collect();
    // (ii) random subsets of false claims
    let nsub = if thorough { 6 } else { 4 };
    for t in 0..nsub {
        let mut ev = q.evals.clone();
        let mut changed = Vec::new();
        let want = if t == 0 { 1 } else { range(rng, 1, keys.len().min(4)) };
        while changed.len() < want {
            let i = below(rng, keys.len());
            if changed.contains(&i) {
                continue;
            }
            changed.push(i);
            let d = loop {
                let d = FOf::<S>::rand(rng);
                if !d.is_zero() {
                    break d;
                }
            };
            *ev.get_mut(&keys[i]).unwrap() += d;
        }
        let (refd, routs) = per_point::<S>(&tx, &q.groups, &ev, &proofs, &mut tx.sponge());
        let mut outs = Vec::new();
        for s in 0..2u64 {
            outs.push(batch_check::<S>(&tx.w.vk, &vcomms, &q.qs, &ev, &proof, &mut tx.sponge(), rng.next_u64() ^ s));
        }
        let mut d = txj.clone();
        d["false_positions"] = json!(changed);
        let same = outs.iter().all(|o| o.is_accept() == outs[0].is_accept());
        ctx.check(same, "verifier-seed-invariance", "batch_check", d.clone(), || json!({"outcomes": outs.iter().map(|o| o.json()).collect::<Vec<_>>()}));
        ctx.check(outs[0].is_accept() == refd, "batch-vs-single-mismatch", "batch_check", d.clone(), || json!({"batch": outs[0].json(), "per_point_all_accept": refd, "per_point": routs}));
        ctx.check(!outs[0].is_accept(), "false-claim-accepted", "batch_check", d, || json!({"batch": outs[0].json()}));
    }
    // (iii) plain cancelling error pairs (delta, -delta): within one point and across points
    let mut pairs: Vec<(usize, usize, &'static str)> = Vec::new();
    for i in 0..keys.len() {
        for j in 0..i {
            let same_point = keys[i].1 == keys[j].1;
            pairs.push((j, i, if same_point { "within-point" } else { "across-points" }));
        }
    }
    let npairs = pairs.len().min(if thorough { 8 } else { 5 });
    for _ in 0..npairs {
        let (a, b, kind) = pairs[below(rng, pairs.len())];
        let d = loop {
            let d = FOf::<S>::rand(rng);
            if !d.is_zero() {
                break d;
            }
        };
        let mut ev = q.evals.clone();
        *ev.get_mut(&keys[a]).unwrap() += d;
        *ev.get_mut(&keys[b]).unwrap() -= d;
        let (refd, routs) = per_point::<S>(&tx, &q.groups, &ev, &proofs, &mut tx.sponge());
        let o = batch_check::<S>(&tx.w.vk, &vcomms, &q.qs, &ev, &proof, &mut tx.sponge(), rng.next_u64());
        let mut dj = txj.clone();
        dj["pair"] = json!([a, b]);
        dj["kind"] = json!(kind);
        ctx.count(&format!("cancelling:{}", kind), 1);
        ctx.check(o.is_accept() == refd, "batch-vs-single-mismatch", "batch_check", dj.clone(), || json!({"batch": o.json(), "per_point_all_accept": refd, "per_point": routs}));
        ctx.check(!o.is_accept(), "cancelling-errors-accepted", "batch_check", dj, || json!({"batch": o.json()}));
    }
    challenge_aware_across_points::<S>(ctx, &tx, &q, &proof, &proofs, &vcomms, &txj, rng, "cancelling-errors-accepted[challenge-aware-across-points]", true);
    // (iii-c) all claims true, blinding evaluation moved from one proof onto another (their sum is unchanged):
    // each per-point check then fails, so the batch must fail too.
    for a in 0..proofs.len() {
        for b in 0..proofs.len() {
            if a == b {
                continue;
            }
            let mut pl = proofs.clone();
            let (mut pa, mut pb) = (pl[a].clone(), pl[b].clone());
            if !S::move_blinding(&mut pa, &mut pb) {
                continue;
            }
            pl[a] = pa;
            pl[b] = pb;
            let (refd, routs) = per_point::<S>(&tx, &q.groups, &q.evals, &pl, &mut tx.sponge());
            let bp: BatchProofOf<S> = pl.into();
            let o = batch_check::<S>(&tx.w.vk, &vcomms, &q.qs, &q.evals, &bp, &mut tx.sponge(), rng.next_u64());
            let mut dj = txj.clone();
            dj["moved"] = json!([a, b]);
            ctx.check(o.is_accept() == refd, "batch-vs-single-mismatch", "batch_check", dj.clone(), || json!({"batch": o.json(), "per_point_all_accept": refd, "per_point": routs}));
            ctx.check(!o.is_accept(), "blinding-moved-between-proofs", "batch_check", dj, || json!({"batch": o.json()}));
        }
    }
    // (iv) proof-list shape
    let n = proofs.len();
    let shapes: Vec<(&str, Vec<ProofOf<S>>)> = {
        let mut v: Vec<(&str, Vec<ProofOf<S>>)> = Vec::new();
        v.push(("proof-list-truncated", proofs[..n - 1].to_vec()));
        v.push(("proof-list-truncated", Vec::new()));
        if n >= 2 {
            v.push(("proof-list-truncated", proofs[1..].to_vec()));
        }
        let mut ext = proofs.clone();
        ext.push(proofs[n - 1].clone());
        v.push(("proof-list-extended", ext));
        let mut ext2 = vec![proofs[0].clone()];
        ext2.extend(proofs.iter().cloned());
        v.push(("proof-list-extended", ext2));
        v
    };
    // use one false claim as well as the all-true claim set: a surplus or missing proof must not verify
    for (cls, plist) in shapes {
        for falsify in [false, true] {
            let mut ev = q.evals.clone();
            if falsify {
                // falsify a claim in the last group (the one whose proof is dropped by truncation)
                let g = &q.groups[q.groups.len() - 1];
                let key = (g.2[0].clone(), g.1.clone());
                *ev.get_mut(&key).unwrap() += FOf::<S>::from(3u64);
            }
            let bp: BatchProofOf<S> = plist.clone().into();
            let o = batch_check::<S>(&tx.w.vk, &vcomms, &q.qs, &ev, &bp, &mut tx.sponge(), rng.next_u64());
            let mut dj = txj.clone();
            dj["list_len"] = json!(plist.len());
            dj["groups"] = json!(n);
            dj["with_false_claim"] = json!(falsify);
            ctx.check(!o.is_accept(), cls, "batch_check", dj, || json!({"batch": o.json()}));
        }
    }
    if n >= 2 {
        // permutation: equality with the per-point reference on the permuted list; rejection if the two groups differ
        let a = below(rng, n);
        let mut b = below(rng, n);
        if a == b {
            b = (a + 1) % n;
        }
        let mut pl = proofs.clone();
        pl.swap(a, b);
        let (refd, routs) = per_point::<S>(&tx, &q.groups, &q.evals, &pl, &mut tx.sponge());
        let bp: BatchProofOf<S> = pl.into();
        let o = batch_check::<S>(&tx.w.vk, &vcomms, &q.qs, &q.evals, &bp, &mut tx.sponge(), rng.next_u64());
        let mut dj = txj.clone();
        dj["swapped"] = json!([a, b]);
        ctx.check(o.is_accept() == refd, "batch-vs-single-mismatch", "batch_check", dj.clone(), || json!({"batch": o.json(), "per_point_all_accept": refd, "per_point": routs}));
        // (a proof bound to its transcript through a few column positions only may legitimately fit another position)
        let nonconst = q.groups[a].2.iter().chain(q.groups[b].2.iter()).any(|l| {
            let p = tx.polys[tx.idx_of(l)].polynomial();
            !S::is_constant(p) && !S::transcript_binds_weakly(&tx.w, p)
        });
        if nonconst {
            ctx.check(!o.is_accept(), "proof-list-permuted", "batch_check", dj, || json!({"batch": o.json()}));
        } else {
            ctx.skipped("proof-list-permuted", "all polynomials in the swapped groups are constant or bound through a few column positions only");
        }
    }
}

/// PST13, coordinated shape + forgery: the proof of the FIRST point label loses its last witness (harmless on its
/// own when the polynomials opened there do not involve the last variable and nothing is blinded: that witness is the
/// identity), and the proof of a later label is replaced by w = (0, .., 0, (v' G - C) / z_last) for false values v',
/// with C and v' combined under the public opening challenges. A batch verifier that sizes its per-variable
/// accumulators from the first proof never pairs the last witness of the later proof.
fn pst13_short_first_proof(ctx: &mut Ctx, rng: &mut ChaCha20Rng) {
    use crate::schemes::{mv_poly, Cfg, Pst13S, Shape, E381};
    use ark_ec::{AffineRepr, CurveGroup};
    use ark_ff::Field;
    use ark_poly::multivariate::{SparsePolynomial, SparseTerm, Term};
    use ark_poly::DenseMVPolynomial;
    use ark_poly_commit::{marlin_pst13_pc, LabeledPolynomial, QuerySet};
    type S = Pst13S<E381>;
    type Fr = ark_bls12_381::Fr;
    let nv = range(rng, 2, 4);
    let d = range(rng, 1, 3);
    let cfg = Cfg { max_degree: d, num_vars: Some(nv), supported_degree: d, supported_hiding: d, enforced: None };
    let w = match make_world::<S>(&cfg, rng) {
        Ok(w) => w,
        Err(_) => return ctx.skipped("baseline", "setup refused"),
    };
    // polynomials for the first label: no term involves the last variable
    let strip = |p: SparsePolynomial<Fr, SparseTerm>| -> SparsePolynomial<Fr, SparseTerm> {
        let terms: Vec<(Fr, SparseTerm)> = p.terms().iter().filter(|(_, t)| !t.vars().contains(&(nv - 1))).cloned().collect();
        SparsePolynomial::from_coefficients_vec(nv, terms)
    };
    let pa: LPoly<S> = LabeledPolynomial::new("pa".into(), strip(mv_poly::<Fr>(nv, Shape::Full, d, rng)), None, None);
    let pb: LPoly<S> = LabeledPolynomial::new("pb".into(), mv_poly::<Fr>(nv, Shape::Full, d, rng), None, None);
    let polys = vec![pa, pb];
    let c = match commit::<S>(&w.ck, &polys, rng.next_u64()) {
        Ok(c) => c,
        Err(_) => return ctx.skipped("baseline", "commit refused"),
    };
    let tx = Tx::<S> { w, specs: vec![], polys, c, pre: b"c05-pst13".to_vec(), commit_seed: 0 };
    let (za, zb) = (<S as Scheme>::gen_point(&cfg, rng), <S as Scheme>::gen_point(&cfg, rng));
    if zb[nv - 1].is_zero() {
        return ctx.skipped("short-first-proof-forgery", "last coordinate of the second point is zero");
    }
    let mut qs: QuerySet<PtOf<S>> = QuerySet::new();
    qs.insert(("pa".to_string(), ("a".to_string(), za.clone())));
    qs.insert(("pb".to_string(), ("b".to_string(), zb.clone())));
    let q = Queries::<S> { evals: { let mut e = Evaluations::new(); e.insert(("pa".to_string(), za.clone()), tx.polys[0].evaluate(&za)); e.insert(("pb".to_string(), zb.clone()), tx.polys[1].evaluate(&zb)); e }, groups: groups_of::<S>(&qs), qs };
    let proof = match batch_open::<S>(&tx, &[0, 1], &q.qs, &mut tx.sponge(), 2) {
        Ok(p) => p,
        Err(_) => return ctx.skipped("baseline", "honest batch_open refused"),
    };
    let proofs: Vec<marlin_pst13_pc::Proof<E381>> = proof.clone().into();
    if proofs.len() != 2 || proofs[0].w.len() != nv {
        return ctx.skipped("baseline", "unexpected proof shape");
    }
    // opening challenges of the two groups (one per unbounded polynomial, in group order)
    let mut spv = tx.sponge();
    let _ = batch_check::<S>(&tx.w.vk, &tx.c.comms, &q.qs, &q.evals, &proof, &mut spv, 2);
    let ch: Vec<Fr> = spv.squeezed_fes();
    if ch.len() != 2 || ch[1].is_zero() {
        return ctx.skipped("short-first-proof-forgery", "challenge schedule differs from the model");
    }
    let delta = Fr::from(1u64) + <Fr as ark_ff::UniformRand>::rand(rng);
    let v_false = q.evals[&("pb".to_string(), zb.clone())] + delta;
    let cb = tx.c.comms[1].commitment().comm.0.into_group() * ch[1];
    let w_last = ((tx.w.vk.g.into_group() * (ch[1] * v_false) - cb) * zb[nv - 1].inverse().unwrap()).into_affine();
    let mut wv = vec![<E381 as ark_ec::pairing::Pairing>::G1Affine::zero(); nv];
    wv[nv - 1] = w_last;
    let mut short = proofs[0].clone();
    short.w.pop();
    let forged = vec![short, marlin_pst13_pc::Proof { w: wv, random_v: None }];
    let mut ev = q.evals.clone();
    ev.insert(("pb".to_string(), zb.clone()), v_false);
    let desc = json!({"num_vars": nv, "degree": d, "first_proof_witnesses": nv - 1});
    let (refd, routs) = per_point::<S>(&tx, &q.groups, &ev, &forged, &mut tx.sponge());
    let bp: BatchProofOf<S> = forged.into();
    let o = batch_check::<S>(&tx.w.vk, &tx.c.comms, &q.qs, &ev, &bp, &mut tx.sponge(), rng.next_u64());
    ctx.check(!(o.is_accept() && !refd), "batch-vs-single-mismatch", "batch_check", desc.clone(), || json!({"batch": o.json(), "per_point_all_accept": refd, "per_point": routs}));
    ctx.check(!o.is_accept(), "short-first-proof-forgery", "batch_check", desc, || json!({"batch": o.json()}));
}

/// Inner-product argument, batches of 65..140 point labels: the proof of one early point is replaced by a forgery
/// for a false value that satisfies the succinct part of the relation (final key solved from the round
/// commitment; the challenges are public) and fails only the final linear-time test. The single check of that
/// point rejects it; the batch must not accept it wherever in the batch it stands.
fn ipa_long_batch(ctx: &mut Ctx, idx: u64, rng: &mut ChaCha20Rng) {
    use crate::schemes::{uni_poly, Cfg, IpaS, JFr, Shape};
    use ark_ec::CurveGroup;
    use ark_ff::{UniformRand, Zero};
    use ark_poly_commit::{ipa_pc, LabeledPolynomial, QuerySet};
    use ark_std::ops::Mul;
    type S = IpaS;
    let d = [3usize, 7, 1, 15][(idx % 4) as usize];
    let cfg = Cfg { max_degree: d, num_vars: None, supported_degree: d, supported_hiding: 1, enforced: None };
    let w = match make_world::<S>(&cfg, rng) {
        Ok(w) => w,
        Err(_) => return ctx.skipped("baseline", "setup refused"),
    };
    let npolys = range(rng, 1, 2);
    let polys: Vec<LPoly<S>> = (0..npolys).map(|i| LabeledPolynomial::new(format!("p{}", i), uni_poly::<JFr>(Shape::Full, d, rng), None, None)).collect();
    let c = match commit::<S>(&w.ck, &polys, rng.next_u64()) {
        Ok(c) => c,
        Err(_) => return ctx.skipped("baseline", "commit refused"),
    };
    let tx = Tx::<S> { w, specs: vec![], polys, c, pre: b"c05-ipa-long".to_vec(), commit_seed: 0 };
    let k = if ctx.is_thorough() { range(rng, 65, 140) } else { range(rng, 65, 72) };
    let mut qs: QuerySet<PtOf<S>> = QuerySet::new();
    let mut evals = Evaluations::new();
    for j in 0..k {
        let z = JFr::rand(rng);
        for p in &tx.polys {
            if npolys == 1 || rng.next_u32() % 3 != 0 || p.label() == "p0" {
                qs.insert((p.label().clone(), (format!("z{:03}", j), z)));
                evals.insert((p.label().clone(), z), p.evaluate(&z));
            }
        }
    }
    let q = Queries::<S> { evals, groups: groups_of::<S>(&qs), qs };
    let ident: Vec<usize> = (0..npolys).collect();
    let proof = match batch_open::<S>(&tx, &ident, &q.qs, &mut tx.sponge(), 2) {
        Ok(p) => p,
        Err(_) => return ctx.skipped("baseline", "honest batch_open refused"),
    };
    let mut spv = tx.sponge();
    let honest = batch_check::<S>(&tx.w.vk, &tx.c.comms, &q.qs, &q.evals, &proof, &mut spv, 2);
    let desc = json!({"supported_degree": d, "point_labels": k, "polynomials": npolys});
    ctx.check(honest.is_accept(), "all-true-accepted", "batch_check", desc.clone(), || json!({"outcome": honest.json()}));
    if !honest.is_accept() {
        return;
    }
    let ch: Vec<JFr> = spv.squeezed_fes();
    let proofs: Vec<ipa_pc::Proof<crate::schemes::JubJub>> = proof.clone().into();
    let total: usize = q.groups.iter().map(|g| 2 * g.2.len() + 1).sum();
    if proofs.len() != k || ch.len() != total {
        return ctx.skipped("long-batch-forged-final-key", "challenge schedule differs from the model");
    }
    // targets: the first group, one among the first 64, one anywhere
    for t in [0usize, below(rng, 64.min(k)), below(rng, k)] {
        let off: usize = q.groups[..t].iter().map(|g| 2 * g.2.len() + 1).sum();
        let g = &q.groups[t];
        let mut cc = <crate::schemes::JubJub as ark_ec::AffineRepr>::Group::zero();
        let mut cv = JFr::zero();
        let delta = JFr::rand(rng);
        let mut ev2 = q.evals.clone();
        for (j, l) in g.2.iter().enumerate() {
            let xi = ch[off + 2 * j];
            let mut v = tx.polys[tx.idx_of(l)].evaluate(&g.1);
            if j == 0 {
                v += delta;
                ev2.insert((l.clone(), g.1), v);
            }
            cc += tx.c.comms[tx.idx_of(l)].commitment().comm.mul(xi);
            cv += xi * v;
        }
        let pr = &proofs[t];
        if pr.hiding_comm.is_some() || ch[off].is_zero() || delta.is_zero() {
            continue;
        }
        let fk = match crate::ipa_ref::forge_final_key(&tx.w.vk.h, cc, cv, g.1, &pr.l_vec, &pr.r_vec, &pr.c) {
            Some(x) => x,
            None => continue,
        };
        let mut forged = proofs.clone();
        forged[t].final_comm_key = fk;
        let fb: BatchProofOf<S> = forged.clone().into();
        let mut dj = desc.clone();
        dj["forged_position"] = json!(t);
        // the forgery must do what it was built for: the reference relation fails only in its last clause
        let rounds = pr.l_vec.len();
        let refd = crate::ipa_ref::verify_relation(&tx.w.vk.comm_key, &tx.w.vk.h, &tx.w.vk.s, cc, cv, g.1, &pr.l_vec, &pr.r_vec, &fk, &pr.c, None, rounds);
        if refd != Ok(false) {
            ctx.skipped("long-batch-forged-final-key", "forgery does not fail the reference relation in the expected way");
            continue;
        }
        if t == 0 {
            // same sponge state as in the batch: the single check sees the same challenges
            let comms: Vec<&LComm<S>> = g.2.iter().map(|l| &tx.c.comms[tx.idx_of(l)]).collect();
            let vals: Vec<JFr> = g.2.iter().map(|l| ev2[&(l.clone(), g.1)]).collect();
            let o = check::<S>(&tx.w.vk, &comms, &g.1, &vals, &forged[0], &mut tx.sponge(), 3);
            ctx.check(!o.is_accept(), "long-batch-forged-final-key", "check", dj.clone(), || json!({"outcome": o.json()}));
        }
        let o = batch_check::<S>(&tx.w.vk, &tx.c.comms, &q.qs, &ev2, &fb, &mut tx.sponge(), 4);
        ctx.check(!o.is_accept(), "long-batch-forged-final-key", "batch_check", dj, || json!({"outcome": o.json(), "single_check_of_that_point": "rejects (final linear-time test)"}));
    }
}

pub fn run(ctx: &mut Ctx) {
    crate::schemes::set_custom_params(true);
    for_each_scheme!(ctx, S, {
        let n = ctx.n(90, 1600) / <S as Scheme>::WEIGHT.max(1);
        ctx.run_cases(<S as Scheme>::NAME, n.max(4), |ctx, _i, rng| case::<S>(ctx, rng));
    });
    // the same cases on configurations with more than a thousand coefficients
    crate::schemes::set_large(true);
    for_each_scheme!(ctx, S, {
        let n = if ctx.is_thorough() { 6 } else { 2 };
        ctx.run_cases(&format!("{}/large", <S as Scheme>::NAME), n, |ctx, _i, rng| case::<S>(ctx, rng));
    });
    crate::schemes::set_large(false);
    let n = ctx.n(20, 300);
    ctx.run_cases("pst13/short-first-proof", n, |ctx, _i, rng| pst13_short_first_proof(ctx, rng));
    ctx.run_cases("ipa/long-batch", if ctx.is_thorough() { 48 } else { 16 }, |ctx, i, rng| ipa_long_batch(ctx, i, rng));
    super::offtrait::c05(ctx);
}
