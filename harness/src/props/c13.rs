//! C13 — linear-code proofs carry the column openings their security level needs.
use crate::mirror::{convert, MLinCommitment, MLinProof};
use crate::oracle::merkle_root_from_path;
use crate::rt::{attempt, Ctx, Out};
use crate::scen::*;
use crate::schemes::*;
use ark_ff::{PrimeField, UniformRand, Zero};
use ark_poly::{univariate::DensePolynomial, DenseMultilinearExtension, Polynomial};
use ark_poly_commit::linear_codes::{verif_calculate_t, LigeroPCParams, LinCodeParametersInfo, LinearEncode};
use ark_poly_commit::{LabeledPolynomial, PolynomialCommitment};
use ark_serialize::CanonicalSerialize;
use num_bigint::BigUint;
use num_traits::{One as _, Zero as _};
use rand_chacha::ChaCha20Rng;
use rand_core::RngCore;
use serde_json::json;

/// exact: 2*(1 - d/2)^t + n/|F| <= 2^-lambda, with 1 - d/2 = a/b
fn holds(t: u64, a: &BigUint, b: &BigUint, n: &BigUint, lam: u32, q: &BigUint) -> bool {
    let at = a.pow(t as u32);
    let bt = b.pow(t as u32);
    let two_l = BigUint::one() << lam;
    let lhs = (BigUint::from(2u32) * &at * q + n * &bt) * &two_l;
    lhs <= bt * q
}

#[derive(PartialEq, Eq, Debug, Clone, Copy)]
enum Agree {
    Yes,
    No,
}

/// does the library result agree with the exact oracle for field size q?
fn agrees(res: &Result<usize, String>, d: (usize, usize), n: u64, lam: u32, q: &BigUint) -> (Agree, String) {
    let a = BigUint::from(2 * d.1 - d.0);
    let b = BigUint::from(2 * d.1);
    let nb = BigUint::from(n);
    let exists = (&nb << lam) < *q && d.0 > 0;
    match res {
        Err(_) => {
            if exists {
                (Agree::No, "error returned although some t satisfies the bound".into())
            } else {
                (Agree::Yes, String::new())
            }
        }
        Ok(t) => {
            let t = *t as u64;
            if !exists {
                return (Agree::No, format!("t = {} returned although no t satisfies the bound", t));
            }
            if t > n {
                return (Agree::No, format!("t = {} exceeds the codeword length {}", t, n));
            }
            if t < n {
                if !holds(t, &a, &b, &nb, lam, q) {
                    return (Agree::No, format!("bound fails at the returned t = {}", t));
                }
                if t >= 1 && holds(t - 1, &a, &b, &nb, lam, q) {
                    return (Agree::No, format!("bound already holds at t - 1 = {}", t - 1));
                }
            } else if n >= 1 && holds(n - 1, &a, &b, &nb, lam, q) {
                return (Agree::No, format!("capped at n = {} although t = {} already satisfies the bound", n, n - 1));
            }
            (Agree::Yes, String::new())
        }
    }
}

fn modulus<F: PrimeField>() -> BigUint {
    BigUint::from_bytes_le(&ark_ff::BigInteger::to_bytes_le(&F::MODULUS))
}

fn t_case<F: PrimeField>(ctx: &mut Ctx, field: &str, rng: &mut ChaCha20Rng, heavy: bool) {
    let lam = 1 + (rng.next_u32() % 256);
    let d: (usize, usize) = if heavy {
        (1000 * 61, 1521 * 1000) // Brakedown's relative distance
    } else {
        let rho = 2 + (rng.next_u32() % 15) as usize;
        (rho - 1, rho)
    };
    let bits = F::MODULUS_BIT_SIZE as u64;
    let n: u64 = match rng.next_u32() % 5 {
        0 => 1 + rng.next_u64() % 64,
        1 => {
            // near a power of 256
            let k = 1 + rng.next_u32() % 5;
            let base = 1u64 << (8 * k);
            base - 2 + rng.next_u64() % 5
        }
        2 => {
            // close to the field-size boundary: lambda + log2 n within a few bits of the modulus size
            let want = bits.saturating_sub(lam as u64 + rng.next_u64() % 10);
            if (1..=40).contains(&want) {
                (1u64 << want) - 1 + rng.next_u64() % 3
            } else {
                1u64 << (rng.next_u32() % 41)
            }
        }
        _ => {
            let e = rng.next_u32() % 41;
            (1u64 << e) + rng.next_u64() % (1u64 << e)
        }
    };
    let res = crate::rt::guard(|| verif_calculate_t::<F>(lam as usize, d, n as usize));
    let res: Result<usize, String> = match res {
        Ok(Ok(t)) => Ok(t),
        Ok(Err(e)) => Err(format!("{:?}", e)),
        Err(p) => Err(format!("panic: {}", p)),
    };
    let desc = json!({"field": field, "lambda": lam, "distance": [d.0, d.1], "n": n});
    let q = modulus::<F>();
    let q2 = BigUint::one() << (bits as u32);
    let (a1, why1) = agrees(&res, d, n, lam, &q);
    if a1 == Agree::Yes {
        ctx.held("calculate-t-minimal", desc);
        return;
    }
    let (a2, why2) = agrees(&res, d, n, lam, &q2);
    if a2 == Agree::Yes {
        ctx.violated("calculate-t-minimal[field-size-taken-as-2^bits]", "calculate_t", desc, json!({"library": format!("{:?}", res), "true_modulus_oracle": why1}));
    } else {
        ctx.violated("calculate-t-minimal", "calculate_t", desc, json!({"library": format!("{:?}", res), "true_modulus_oracle": why1, "two_pow_bits_oracle": why2}));
    }
}

/// Distances for which the real quotient (lambda+1) / -log2(1 - d/2) lies a hair above or below an integer k:
/// rounding the column count the wrong way there opens one column too few (or too many). The distance is the
/// 53-bit rational closest to 2*(1 - 2^(-(lambda+1)/(k + eps))); the exact oracle decides for that rational.
fn t_near_integer(ctx: &mut Ctx, rng: &mut ChaCha20Rng) {
    type F = ark_bls12_381::Fr;
    let lam = 1 + (rng.next_u32() % 128);
    let k = lam as u64 + 2 + rng.next_u64() % (12 * lam as u64 + 40);
    let e = 6 + (rng.next_u32() % 9); // |eps| = 10^-6 .. 10^-14
    let eps = if rng.next_u32() % 2 == 0 { 1.0 } else { -1.0 } * 10f64.powi(-(e as i32));
    let x = k as f64 + eps;
    let a = (-(lam as f64 + 1.0) / x).exp2();
    let d1: usize = 1 << 53;
    let d0 = ((2.0 * (1.0 - a)) * d1 as f64).round() as usize;
    if d0 == 0 || d0 > d1 {
        return ctx.skipped("calculate-t-minimal[quotient-near-an-integer]", "distance out of range");
    }
    let n = k + 1000;
    let res = crate::rt::guard(|| verif_calculate_t::<F>(lam as usize, (d0, d1), n as usize));
    let res: Result<usize, String> = match res {
        Ok(Ok(t)) => Ok(t),
        Ok(Err(e)) => Err(format!("{:?}", e)),
        Err(p) => Err(format!("panic: {}", p)),
    };
    let (ag, why) = agrees(&res, (d0, d1), n, lam, &modulus::<F>());
    let desc = json!({"lambda": lam, "distance": [d0, d1], "n": n, "target_quotient": format!("{} {} 1e-{}", k, if eps > 0.0 { "+" } else { "-" }, e)});
    // the library evaluates the bound in double precision (relative error about q^2 * 1e-16 / lambda on the quotient q,
    // i.e. up to a few 1e-12 here): quotients closer to an integer than 1e-10 are tallied separately (finding F14)
    let class = if e <= 10 { "calculate-t-minimal[quotient-near-an-integer]" } else { "calculate-t-minimal[quotient-within-1e-10-of-an-integer]" };
    ctx.check(ag == Agree::Yes, class, "calculate_t", desc, || json!({"library": format!("{:?}", res), "exact_oracle": why}));
}

/// honest proofs: number and positions of opened columns
fn proof_case<S, L>(ctx: &mut Ctx, ck: CkOf<S>, cfg: &Cfg, label: &str, rng: &mut ChaCha20Rng)
where
    S: Scheme<F = LFr>,
    S::PC: PolynomialCommitment<LFr, POf<S>, VerifierKey = CkOf<S>>,
    L: LinearEncode<LFr, MtParams, POf<S>, ColHasher<LFr>, LinCodePCParams = CkOf<S>>,
    CkOf<S>: LinCodeParametersInfo<MtParams, ColHasher<LFr>> + Clone,
{
    let deg = if S::KIND == Kind::Univariate { cfg.supported_degree } else { 0 };
    let p = S::gen_poly(cfg, Shape::Full, deg, rng);
    let lp: LPoly<S> = LabeledPolynomial::new("p".into(), p.clone(), None, None);
    let desc = json!({"params": label, "cfg": cfg.json(), "sec_param": ck.sec_param(), "distance": [ck.distance().0, ck.distance().1]});
    let c = match commit::<S>(&ck, std::slice::from_ref(&lp), 1) {
        Ok(c) => c,
        Err(o) => return ctx.violated("honest-pipeline-refused", "commit", desc, json!({"outcome": o.json()})),
    };
    let cm: MLinCommitment = match convert(c.comms[0].commitment()) {
        Ok(m) => m,
        Err(e) => return ctx.violated("commitment-mirror", "commit", desc, json!({"error": e})),
    };
    let z = S::gen_point(cfg, rng);
    let mut sp = crate::probe::sponge::<LFr>(b"c13");
    let mut r = crate::probe::mon_rng(2);
    let proof = match attempt(|| PcOf::<S>::open(&ck, [&lp], c.comms.iter(), &z, &mut sp, c.states.iter(), Some(&mut r))) {
        Ok(p) => p,
        Err(o) => return ctx.violated("honest-pipeline-refused", "open", desc, json!({"outcome": o.json()})),
    };
    let bp: BatchProofOf<S> = vec![proof.clone()].into();
    // BatchProof = Vec<Vec<LinCodePCProof>>
    let mp: Vec<Vec<MLinProof<LFr>>> = match convert(&bp) {
        Ok(m) => m,
        Err(e) => return ctx.violated("proof-mirror", "open", desc, json!({"error": e})),
    };
    let pr = &mp[0][0];
    let n_ext = cm.metadata.n_ext_cols;
    let t = match verif_calculate_t::<LFr>(ck.sec_param(), ck.distance(), n_ext) {
        Ok(t) => t,
        Err(e) => return ctx.violated("column-count", "calculate_t", desc, json!({"error": format!("{:?}", e)})),
    };
    // the exact oracle must agree on this t as well (ties the proof to the stated bound)
    let (ag, why) = agrees(&Ok(t), ck.distance(), n_ext as u64, ck.sec_param() as u32, &modulus::<LFr>());
    let count_ok = pr.opening.columns.len() == t && pr.opening.paths.len() == t && ag == Agree::Yes;
    let mut d = desc.clone();
    d["n_ext_cols"] = json!(n_ext);
    d["n_rows"] = json!(cm.metadata.n_rows);
    d["t"] = json!(t);
    ctx.count(if t < n_ext { "proofs-with-t-below-codeword-length" } else { "proofs-with-t-capped" }, 1);
    ctx.check(count_ok, "column-count", "open", d.clone(), || json!({"columns": pr.opening.columns.len(), "paths": pr.opening.paths.len(), "t": t, "exact_oracle": why}));
    // positions: derived from the transcript, inside the codeword
    let sq = sp.squeezed_bytes();
    let mut want_idx = Vec::new();
    let mut cover = true;
    for b in &sq {
        let v = b.iter().fold(0usize, |acc, x| (acc << 8) + *x as usize);
        want_idx.push(v % n_ext);
        if b.len() < 8 && (1usize << (8 * b.len())) < n_ext {
            cover = false;
        }
    }
    let got: Vec<usize> = pr.opening.paths.iter().map(|p| p.leaf_index).collect();
    let pos_ok = got == want_idx && got.iter().all(|i| *i < n_ext) && cover && sq.len() == t;
    ctx.check(pos_ok, "column-positions", "open", d.clone(), || json!({"squeezes": sq.len(), "indices_match_transcript": got == want_idx, "byte_width_covers_codeword": cover, "first": got.iter().take(4).collect::<Vec<_>>()}));
    // each opened column is authenticated against the committed root (independent path computation)
    let mut auth = true;
    for (col, path) in pr.opening.columns.iter().zip(&pr.opening.paths) {
        let mut bytes = Vec::new();
        col.serialize_compressed(&mut bytes).unwrap();
        use digest::Digest;
        let leaf = blake2::Blake2s256::digest(&bytes).to_vec();
        let root = merkle_root_from_path(&leaf, path.leaf_index, &path.leaf_sibling_hash, &path.auth_path);
        auth &= root == cm.root && col.len() == cm.metadata.n_rows;
    }
    ctx.check(auth, "columns-authenticated", "open", d.clone(), || json!({}));
    // verifier side of the same requirement: every one of the t columns must be authenticated, also the later copy
    // of a position the transcript opens twice. That copy is shifted inside the kernel of the verifier's linear tests
    // (so only the Merkle check can notice) and its path is left alone.
    {
        let pos: Vec<usize> = pr.opening.paths.iter().map(|p| p.leaf_index).collect();
        let dup = (0..pos.len()).find(|&j2| pos[..j2].contains(&pos[j2]));
        let (_, bvec) = L::tensor(&z, cm.metadata.n_cols, cm.metadata.n_rows);
        let fes = sp.squeezed_fes();
        let rvec: Option<Vec<LFr>> = if ck.check_well_formedness() { Some(fes.iter().take(cm.metadata.n_rows).cloned().collect()) } else { None };
        let usable = rvec.as_ref().map(|r| r.len() == cm.metadata.n_rows).unwrap_or(true);
        match (dup, if usable { super::c10::kernel_vector(&bvec, rvec.as_deref(), rng) } else { None }) {
            (Some(j2), Some(delta)) => {
                let mut forged = pr.clone();
                for (x, dl) in forged.opening.columns[j2].iter_mut().zip(&delta) {
                    *x += *dl;
                }
                let enc: Result<BatchProofOf<S>, String> = convert(&vec![vec![forged]]);
                match enc {
                    Err(_) => ctx.skipped("duplicate-position-authenticated", "forged proof could not be encoded"),
                    Ok(bp2) => {
                        let mut ps: Vec<ProofOf<S>> = bp2.into();
                        let value = p.evaluate(&z);
                        let refs: Vec<&LComm<S>> = c.comms.iter().collect();
                        let honest = check::<S>(&ck, &refs, &z, &[value], &proof, &mut crate::probe::sponge::<LFr>(b"c13"), 1);
                        let o = check::<S>(&ck, &refs, &z, &[value], &ps.remove(0), &mut crate::probe::sponge::<LFr>(b"c13"), 1);
                        let mut dj = d.clone();
                        dj["repeated_position"] = json!(pos[j2]);
                        dj["copy"] = json!(j2);
                        if honest != Out::Accept {
                            ctx.violated("honest-pipeline-refused", "check", dj, json!({"outcome": honest.json()}));
                        } else {
                            ctx.check(!o.is_accept(), "duplicate-position-authenticated", "check", dj, || json!({"outcome": o.json(), "columns_of_the_committed_matrix": t - 1, "required": t}));
                        }
                    }
                }
            }
            (None, _) => ctx.skipped("duplicate-position-authenticated", "no position is opened twice"),
            _ => ctx.skipped("duplicate-position-authenticated", "the verifier's linear tests leave no room (two rows with well-formedness)"),
        }
    }
    // encode: linear, declared length
    let m = cm.metadata.n_cols;
    let x: Vec<LFr> = (0..m).map(|_| LFr::rand(rng)).collect();
    let y: Vec<LFr> = (0..m).map(|_| LFr::rand(rng)).collect();
    let (a, b) = (LFr::rand(rng), LFr::rand(rng));
    let comb: Vec<LFr> = x.iter().zip(&y).map(|(u, v)| a * u + b * v).collect();
    match attempt(|| -> Result<_, ark_poly_commit::Error> { Ok((L::encode(&x, &ck)?, L::encode(&y, &ck)?, L::encode(&comb, &ck)?, L::encode(&vec![LFr::zero(); m], &ck)?)) }) {
        Err(o) => ctx.violated("encode-linear", "encode", d, json!({"outcome": o.json()})),
        Ok((ex, ey, ec, ez)) => {
            let lin = ex.len() == n_ext && ey.len() == n_ext && ec.len() == n_ext && ec.iter().zip(ex.iter().zip(&ey)).all(|(c, (u, v))| *c == a * u + b * v) && ez.iter().all(|e| e.is_zero());
            ctx.check(lin, "encode-linear", "encode", d, || json!({"len": ex.len(), "declared": n_ext}));
        }
    }
}

fn ligero_uni(ctx: &mut Ctx, rng: &mut ChaCha20Rng) {
    let sec = [16usize, 32, 64, 100, 128][below(rng, 5)];
    let rho = [2usize, 4, 8, 16][below(rng, 4)];
    let ck = LigeroPCParams::<LFr, MtParams, ColHasher<LFr>>::new(sec, rho, rng.next_u32() % 4 != 0, (), (), ());
    let dist_ok = ck.distance() == (rho - 1, rho) && ck.sec_param() == sec;
    ctx.check(dist_ok, "distance-reported", "LigeroPCParams::new", json!({"sec_param": sec, "rho_inv": rho}), || json!({"distance": [ck.distance().0, ck.distance().1]}));
    let deg = match rng.next_u32() % 3 {
        0 => range(rng, 1, 64),
        1 => range(rng, 64, 600),
        _ => range(rng, 600, if ctx.is_thorough() { 6000 } else { 2500 }),
    };
    let cfg = Cfg { max_degree: deg, num_vars: None, supported_degree: deg, supported_hiding: 0, enforced: None };
    proof_case::<UniLigeroS, UniLigeroEnc>(ctx, ck, &cfg, &format!("ligero(sec={},rho_inv={})", sec, rho), rng);
}

fn ligero_ml(ctx: &mut Ctx, rng: &mut ChaCha20Rng) {
    let sec = [16usize, 32, 64, 128][below(rng, 4)];
    let rho = [2usize, 4, 8][below(rng, 3)];
    let ck = LigeroPCParams::<LFr, MtParams, ColHasher<LFr>>::new(sec, rho, rng.next_u32() % 4 != 0, (), (), ());
    let nv = range(rng, 1, if ctx.is_thorough() { 13 } else { 11 });
    let cfg = Cfg { max_degree: 1, num_vars: Some(nv), supported_degree: 1, supported_hiding: 0, enforced: None };
    proof_case::<MlLigeroS, MlLigeroEnc>(ctx, ck, &cfg, &format!("ligero-ml(sec={},rho_inv={})", sec, rho), rng);
}

fn brakedown(ctx: &mut Ctx, rng: &mut ChaCha20Rng) {
    let nv = range(rng, 1, if ctx.is_thorough() { 12 } else { 10 });
    let cfg = Cfg { max_degree: 1, num_vars: Some(nv), supported_degree: 1, supported_hiding: 0, enforced: None };
    let w = match make_world::<BrakedownS>(&cfg, rng) {
        Ok(w) => w,
        Err((st, o)) => return ctx.violated("honest-pipeline-refused", &st, cfg.json(), json!({"outcome": o.json()})),
    };
    // relative distance of the default Brakedown code: beta / rho_inv with beta = 61/1000, rho_inv = 1521/1000
    let (d0, d1) = w.ck.distance();
    let ok = d0 * 1521 * 1000 == d1 * 61 * 1000 && w.ck.sec_param() == 128;
    ctx.check(ok, "distance-reported", "BrakedownPCParams::default", json!({"num_vars": nv}), || json!({"distance": [d0, d1]}));
    proof_case::<BrakedownS, BrakedownEnc>(ctx, w.ck.clone(), &cfg, "brakedown(default)", rng);
}

/// parameter combinations for which no column count can reach the security level are refused
fn unusable(ctx: &mut Ctx, rng: &mut ChaCha20Rng) {
    let sec = 250 + (rng.next_u32() % 60) as usize;
    let ck = LigeroPCParams::<LFr, MtParams, ColHasher<LFr>>::new(sec, 4, true, (), (), ());
    let deg = range(rng, 64, 400);
    let p: LPoly<UniLigeroS> = LabeledPolynomial::new("p".into(), uni_poly::<LFr>(Shape::Full, deg, rng), None, None);
    let r = commit::<UniLigeroS>(&ck, std::slice::from_ref(&p), 1);
    // n / |F| >= 2^-lambda  <=>  no t exists
    let n = BigUint::from((deg + 1) as u64);
    let exists = (&n << (sec as u32)) < modulus::<LFr>();
    let desc = json!({"sec_param": sec, "degree": deg, "some_t_exists_for_poly_len": exists});
    if exists {
        ctx.skipped("unusable-parameters-refused", "parameters are usable for this size");
    } else {
        ctx.check(r.is_err(), "unusable-parameters-refused", "commit", desc, || json!({"outcome": "Ok(commitment)"}));
    }
}

/// A proof made under usable parameters, presented to `open` / `check` under a key whose security level the field
/// cannot reach (2^-lambda <= n / |F|): both must report an error, also for codewords shorter than lambda.
fn unusable_at_open_and_check(ctx: &mut Ctx, rng: &mut ChaCha20Rng) {
    type S = UniLigeroS;
    let rho = [2usize, 4, 8][below(rng, 3)];
    let wf = rng.next_u32() % 2 == 0;
    let good = LigeroPCParams::<LFr, MtParams, ColHasher<LFr>>::new(128, rho, wf, (), (), ());
    let sec_bad = 255 + (rng.next_u32() % 40) as usize;
    let bad = LigeroPCParams::<LFr, MtParams, ColHasher<LFr>>::new(sec_bad, rho, wf, (), (), ());
    let deg = range(rng, 1, 100);
    let p: LPoly<S> = LabeledPolynomial::new("p".into(), uni_poly::<LFr>(Shape::Full, deg, rng), None, None);
    let c = match commit::<S>(&good, std::slice::from_ref(&p), 1) {
        Ok(c) => c,
        Err(_) => return ctx.skipped("unusable-parameters-refused[open-check]", "commit refused under the usable key"),
    };
    let z = LFr::rand(rng);
    let v = p.evaluate(&z);
    let mut r = crate::probe::mon_rng(2);
    let proof = match attempt(|| PcOf::<S>::open(&good, [&p], c.comms.iter(), &z, &mut crate::probe::sponge::<LFr>(b"c13u"), c.states.iter(), Some(&mut r))) {
        Ok(p) => p,
        Err(_) => return ctx.skipped("unusable-parameters-refused[open-check]", "open refused under the usable key"),
    };
    let refs: Vec<&LComm<S>> = c.comms.iter().collect();
    if check::<S>(&good, &refs, &z, &[v], &proof, &mut crate::probe::sponge::<LFr>(b"c13u"), 2) != Out::Accept {
        return ctx.skipped("unusable-parameters-refused[open-check]", "honest proof not accepted (reported under C01)");
    }
    let desc = json!({"sec_param": sec_bad, "rho_inv": rho, "well_formedness": wf, "degree": deg});
    let o = check::<S>(&bad, &refs, &z, &[v], &proof, &mut crate::probe::sponge::<LFr>(b"c13u"), 2);
    ctx.check(!o.is_accept(), "unusable-parameters-refused[open-check]", "check", desc.clone(), || json!({"outcome": o.json()}));
    let mut r = crate::probe::mon_rng(2);
    let res = attempt(|| PcOf::<S>::open(&bad, [&p], c.comms.iter(), &z, &mut crate::probe::sponge::<LFr>(b"c13u"), c.states.iter(), Some(&mut r)));
    ctx.check(res.is_err(), "unusable-parameters-refused[open-check]", "open", desc, || json!({"outcome": "Ok(proof)"}));
}

pub fn run(ctx: &mut Ctx) {
    let n = ctx.n(16_000, 1_200_000);
    ctx.run_cases("calculate_t/bls12-381-fr", n / 2, |ctx, _i, rng| t_case::<ark_bls12_381::Fr>(ctx, "bls12-381 Fr (255 bit)", rng, false));
    ctx.run_cases("calculate_t/bls12-377-fr", n / 4, |ctx, _i, rng| t_case::<ark_bls12_377::Fr>(ctx, "bls12-377 Fr (253 bit)", rng, false));
    ctx.run_cases("calculate_t/jubjub-fr", n / 8, |ctx, _i, rng| t_case::<JFr>(ctx, "jubjub Fr (252 bit)", rng, false));
    ctx.run_cases("calculate_t/bls12-381-fq", n / 8, |ctx, _i, rng| t_case::<ark_bls12_381::Fq>(ctx, "bls12-381 Fq (381 bit)", rng, false));
    ctx.run_cases("calculate_t/brakedown-distance", (n / 400).max(8), |ctx, _i, rng| t_case::<ark_bls12_381::Fr>(ctx, "bls12-381 Fr (255 bit)", rng, true));
    ctx.run_cases("calculate_t/near-integer-quotient", (n / 40).max(50), |ctx, _i, rng| t_near_integer(ctx, rng));
    let m = ctx.n(80, 1600);
    ctx.run_cases("ligero-uni", m, |ctx, _i, rng| ligero_uni(ctx, rng));
    ctx.run_cases("ligero-ml", m / 2, |ctx, _i, rng| ligero_ml(ctx, rng));
    ctx.run_cases("brakedown", m / 4, |ctx, _i, rng| brakedown(ctx, rng));
    ctx.run_cases("unusable", m / 2, |ctx, _i, rng| unusable(ctx, rng));
    ctx.run_cases("unusable/open-check", m / 2, |ctx, _i, rng| unusable_at_open_and_check(ctx, rng));
    let _ = (DensePolynomial::<LFr>::zero().degree(), DenseMultilinearExtension::<LFr>::zero().num_vars);
}
