//! Run-time support shared by all monitors: case scheduling, panic containment,
//! three-valued verdict collection, witness records and the per-shard summary.

use rand_chacha::ChaCha20Rng;
use rand_core::SeedableRng;
use serde_json::{json, Value};
use sha2::{Digest, Sha256};
use std::collections::{BTreeMap, HashSet};
use std::io::Write;
use std::panic::{catch_unwind, AssertUnwindSafe};

#[derive(Clone, Copy, PartialEq, Eq, Debug)]
pub enum Tier {
    Quick,
    Thorough,
}

/// Outcome class of a library call that yields a decision.
#[derive(Clone, Debug, PartialEq, Eq)]
pub enum Out {
    Accept,
    Reject,
    Err(String),
    Panic(String),
}

impl Out {
    pub fn is_accept(&self) -> bool {
        matches!(self, Out::Accept)
    }
    pub fn refused(&self) -> bool {
        matches!(self, Out::Err(_) | Out::Panic(_))
    }
    pub fn tag(&self) -> &'static str {
        match self {
            Out::Accept => "accept",
            Out::Reject => "reject",
            Out::Err(_) => "err",
            Out::Panic(_) => "panic",
        }
    }
    pub fn json(&self) -> Value {
        match self {
            Out::Accept => json!("accept"),
            Out::Reject => json!("reject"),
            Out::Err(e) => json!({ "err": clip(e, 160) }),
            Out::Panic(e) => json!({ "panic": clip(e, 160) }),
        }
    }
}

pub fn clip(s: &str, n: usize) -> String {
    if s.len() <= n {
        s.to_string()
    } else {
        let mut e = n;
        while !s.is_char_boundary(e) {
            e -= 1;
        }
        format!("{}...", &s[..e])
    }
}

/// Run a library call, containing panics. `Err(msg)` means the call unwound.
pub fn guard<T>(f: impl FnOnce() -> T) -> Result<T, String> {
    match catch_unwind(AssertUnwindSafe(f)) {
        Ok(v) => Ok(v),
        Err(e) => {
            let msg = if let Some(s) = e.downcast_ref::<&str>() {
                s.to_string()
            } else if let Some(s) = e.downcast_ref::<String>() {
                s.clone()
            } else {
                "non-string panic payload".to_string()
            };
            Err(msg)
        }
    }
}

/// Classify a `Result<bool, E>`-returning verification call.
pub fn decide<E: std::fmt::Debug>(f: impl FnOnce() -> Result<bool, E>) -> Out {
    match guard(f) {
        Ok(Ok(true)) => Out::Accept,
        Ok(Ok(false)) => Out::Reject,
        Ok(Err(e)) => Out::Err(format!("{:?}", e)),
        Err(p) => Out::Panic(p),
    }
}

/// Classify a call returning `Result<T, E>`: Ok(T) is handed back.
pub fn attempt<T, E: std::fmt::Debug>(f: impl FnOnce() -> Result<T, E>) -> Result<T, Out> {
    match guard(f) {
        Ok(Ok(v)) => Ok(v),
        Ok(Err(e)) => Err(Out::Err(format!("{:?}", e))),
        Err(p) => Err(Out::Panic(p)),
    }
}

#[derive(Default, Clone)]
struct Tally {
    held: u64,
    violated: u64,
    skipped: BTreeMap<String, u64>,
}

pub struct Ctx {
    pub prop: String,
    pub tier: Tier,
    pub seed: u64,
    pub shard: u64,
    pub nshards: u64,
    pub only: Option<(String, u64)>,
    pub scale: f64,
    /// added to the case index when cases are dealt to shards (spreads workloads of one or two heavy cases)
    pub shard_offset: u64,
    tallies: BTreeMap<(String, String), Tally>,
    distinct: HashSet<u64>,
    samples: BTreeMap<(String, String), Vec<Value>>,
    violations: Vec<Value>,
    harness_errors: Vec<Value>,
    counters: BTreeMap<String, u64>,
    notes: BTreeMap<String, Value>,
    cur_scheme: String,
    cur_idx: u64,
    cases_run: u64,
    journal: Option<std::fs::File>,
    start: std::time::Instant,
}

pub const MAX_SAMPLES_PER_CLASS: usize = 2;
pub const MAX_VIOLATION_RECORDS: usize = 200;

impl Ctx {
    pub fn new(
        prop: &str,
        tier: Tier,
        seed: u64,
        shard: u64,
        nshards: u64,
        only: Option<(String, u64)>,
        journal_path: Option<&str>,
    ) -> Self {
        let journal = journal_path.map(|p| {
            std::fs::OpenOptions::new()
                .create(true)
                .append(true)
                .open(p)
                .expect("journal")
        });
        let scale = std::env::var("PCMON_SCALE")
            .ok()
            .and_then(|s| s.parse::<f64>().ok())
            .unwrap_or(1.0);
        Ctx {
            prop: prop.to_string(),
            tier,
            seed,
            shard,
            nshards,
            only,
            scale,
            shard_offset: 0,
            tallies: BTreeMap::new(),
            distinct: HashSet::new(),
            samples: BTreeMap::new(),
            violations: Vec::new(),
            harness_errors: Vec::new(),
            counters: BTreeMap::new(),
            notes: BTreeMap::new(),
            cur_scheme: String::new(),
            cur_idx: 0,
            cases_run: 0,
            journal,
            start: std::time::Instant::now(),
        }
    }

    /// Number of cases for the current tier (scaled by PCMON_SCALE, at least 1).
    pub fn n(&self, quick: u64, thorough: u64) -> u64 {
        // per-property volume multipliers (measured so that a quick run takes about a minute on 16 cores)
        let (mq, mt) = match self.prop.as_str() {
            "C05" => (3, 2),
            "C18" => (1, 1),
            "C19" => (3, 2),
            "C13" | "C16" => (8, 12),
            "C15" => (1, 1),
            _ => (6, 3),
        };
        let base = match self.tier {
            Tier::Quick => quick * mq,
            Tier::Thorough => thorough * mt,
        };
        ((base as f64 * self.scale).ceil() as u64).max(1)
    }

    pub fn is_thorough(&self) -> bool {
        self.tier == Tier::Thorough
    }

    /// Deterministic per-case generator: depends only on (seed, prop, scheme, idx).
    pub fn case_rng(&self, scheme: &str, idx: u64) -> ChaCha20Rng {
        let mut h = Sha256::new();
        h.update(b"pcmon-case");
        h.update(self.seed.to_le_bytes());
        h.update(self.prop.as_bytes());
        h.update([0u8]);
        h.update(scheme.as_bytes());
        h.update([0u8]);
        h.update(idx.to_le_bytes());
        let d = h.finalize();
        let mut s = [0u8; 32];
        s.copy_from_slice(&d);
        ChaCha20Rng::from_seed(s)
    }

    /// Run cases `0..n` of `scheme` that belong to this shard (or the single replayed one).
    pub fn run_cases(
        &mut self,
        scheme: &str,
        n: u64,
        mut f: impl FnMut(&mut Ctx, u64, &mut ChaCha20Rng),
    ) {
        for idx in 0..n {
            if let Some((s, i)) = &self.only {
                if s != scheme || *i != idx {
                    continue;
                }
            } else if (idx + self.shard_offset) % self.nshards != self.shard {
                continue;
            }
            self.cur_scheme = scheme.to_string();
            self.cur_idx = idx;
            self.cases_run += 1;
            if let Some(j) = self.journal.as_mut() {
                let _ = writeln!(j, "BEGIN {} {} {}", self.prop, scheme, idx);
            }
            let mut rng = self.case_rng(scheme, idx);
            let r = catch_unwind(AssertUnwindSafe(|| f(self, idx, &mut rng)));
            if let Err(e) = r {
                let msg = if let Some(s) = e.downcast_ref::<&str>() {
                    s.to_string()
                } else if let Some(s) = e.downcast_ref::<String>() {
                    s.clone()
                } else {
                    "?".into()
                };
                self.harness_errors.push(json!({
                    "scheme": scheme, "idx": idx, "panic": clip(&msg, 300)
                }));
            }
            if let Some(j) = self.journal.as_mut() {
                let _ = writeln!(j, "END {} {} {}", self.prop, scheme, idx);
            }
        }
    }

    fn hash_case(&self, class: &str, desc: &Value) -> u64 {
        let mut h = Sha256::new();
        h.update(self.cur_scheme.as_bytes());
        h.update([0u8]);
        h.update(class.as_bytes());
        h.update([0u8]);
        h.update(desc.to_string().as_bytes());
        let d = h.finalize();
        u64::from_le_bytes(d[..8].try_into().unwrap())
    }

    fn key(&self, class: &str) -> (String, String) {
        (self.cur_scheme.clone(), class.to_string())
    }

    /// The oracle's preconditions held and the observation agreed with it.
    pub fn held(&mut self, class: &str, desc: Value) {
        let h = self.hash_case(class, &desc);
        self.distinct.insert(h);
        let k = self.key(class);
        self.tallies.entry(k.clone()).or_default().held += 1;
        let s = self.samples.entry(k).or_default();
        if s.len() < MAX_SAMPLES_PER_CLASS {
            s.push(json!({"scheme": self.cur_scheme, "idx": self.cur_idx, "class": class, "verdict": "held", "case": desc}));
        }
    }

    /// Cheap variant for very high-volume monitors: caller supplies the distinctness hash and
    /// builds the descriptor lazily (only for the first samples).
    pub fn held_fast(&mut self, class: &str, hash: u64, desc: impl FnOnce() -> Value) {
        self.distinct.insert(hash);
        let k = self.key(class);
        self.tallies.entry(k.clone()).or_default().held += 1;
        let s = self.samples.entry(k).or_default();
        if s.len() < MAX_SAMPLES_PER_CLASS {
            s.push(json!({"scheme": self.cur_scheme, "idx": self.cur_idx, "class": class, "verdict": "held", "case": desc()}));
        }
    }

    /// The oracle's preconditions did not hold; the case decides nothing.
    pub fn skipped(&mut self, class: &str, reason: &str) {
        let k = self.key(class);
        *self
            .tallies
            .entry(k)
            .or_default()
            .skipped
            .entry(reason.to_string())
            .or_default() += 1;
    }

    /// The observation refutes the property. `entry` names the API entry point.
    pub fn violated(&mut self, class: &str, entry: &str, desc: Value, detail: Value) {
        let h = self.hash_case(class, &desc);
        self.distinct.insert(h);
        let k = self.key(class);
        self.tallies.entry(k).or_default().violated += 1;
        let sig = format!("{}|{}|{}|{}", self.prop, self.cur_scheme, entry, class);
        if self.violations.len() < MAX_VIOLATION_RECORDS {
            self.violations.push(json!({
                "property": self.prop,
                "signature": sig,
                "scheme": self.cur_scheme,
                "entry": entry,
                "class": class,
                "seed": self.seed,
                "idx": self.cur_idx,
                "tier": match self.tier { Tier::Quick => "quick", Tier::Thorough => "thorough" },
                "case": desc,
                "detail": detail,
            }));
        } else {
            *self.counters.entry("violations_not_recorded".into()).or_default() += 1;
        }
    }

    /// Convenience: verdict from a boolean.
    pub fn check(&mut self, ok: bool, class: &str, entry: &str, desc: Value, detail: impl FnOnce() -> Value) {
        if ok {
            self.held(class, desc);
        } else {
            self.violated(class, entry, desc, detail());
        }
    }

    pub fn count(&mut self, key: &str, n: u64) {
        *self.counters.entry(key.to_string()).or_default() += n;
    }

    pub fn note(&mut self, key: &str, v: Value) {
        self.notes.insert(key.to_string(), v);
    }

    /// Merge entries into an object-valued note (used for the cross-build digest table).
    pub fn merge_note_map(&mut self, key: &str, m: serde_json::Map<String, Value>) {
        let e = self.notes.entry(key.to_string()).or_insert_with(|| json!({}));
        if let Some(o) = e.as_object_mut() {
            for (k, v) in m {
                o.insert(k, v);
            }
        }
    }

    pub fn cur(&self) -> (String, u64) {
        (self.cur_scheme.clone(), self.cur_idx)
    }

    pub fn summary(&self) -> Value {
        let mut tallies = Vec::new();
        for ((scheme, class), t) in &self.tallies {
            tallies.push(json!({
                "scheme": scheme, "class": class, "held": t.held, "violated": t.violated,
                "skipped": t.skipped,
            }));
        }
        let mut samples = Vec::new();
        for v in self.samples.values() {
            for s in v {
                samples.push(s.clone());
            }
        }
        let hashes: Vec<String> = if self.distinct.len() <= 60000 {
            self.distinct.iter().map(|h| format!("{:016x}", h)).collect()
        } else {
            Vec::new()
        };
        json!({
            "prop": self.prop,
            "seed": self.seed,
            "shard": self.shard,
            "nshards": self.nshards,
            "cases_run": self.cases_run,
            "tallies": tallies,
            "distinct": self.distinct.len(),
            "distinct_hashes": hashes,
            "samples": samples,
            "violations": self.violations,
            "harness_errors": self.harness_errors,
            "counters": self.counters,
            "notes": self.notes,
            "wall_s": self.start.elapsed().as_secs_f64(),
        })
    }
}

pub fn silence_panics() {
    std::panic::set_hook(Box::new(|_| {}));
}
