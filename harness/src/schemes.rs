//! One adapter per scheme implementing the `PolynomialCommitment` trait: concrete types,
//! configuration / polynomial / point generators and the in-domain table (DESIGN.md section 4).

use ark_crypto_primitives::{
    crh::{sha256::Sha256, CRHScheme, TwoToOneCRHScheme},
    merkle_tree::{ByteDigestConverter, Config as MtConfig},
    sponge::Absorb,
};
use ark_ec::pairing::Pairing;
use ark_ff::{PrimeField, UniformRand, Zero};
use ark_poly::{
    multivariate::{SparsePolynomial, SparseTerm, Term},
    univariate::DensePolynomial,
    DenseMVPolynomial, DenseMultilinearExtension, DenseUVPolynomial, Polynomial,
};
use ark_poly_commit::{
    hyrax::HyraxPC,
    ipa_pc::InnerProductArgPC,
    linear_codes::{LigeroPCParams, LinearCodePCS, MultilinearBrakedown, MultilinearLigero, UnivariateLigero},
    marlin_pc::MarlinKZG10,
    marlin_pst13_pc::MarlinPST13,
    sonic_pc::SonicKZG10,
    PolynomialCommitment,
};
use ark_serialize::CanonicalSerialize;
use blake2::Blake2s256;
use rand_core::RngCore;
use std::borrow::Borrow;
use std::marker::PhantomData;

pub type JubJub = ark_ed_on_bls12_381::EdwardsAffine;
pub type JFr = ark_ed_on_bls12_381::Fr;

#[derive(Clone, Debug)]
pub struct Cfg {
    pub max_degree: usize,
    pub num_vars: Option<usize>,
    pub supported_degree: usize,
    pub supported_hiding: usize,
    pub enforced: Option<Vec<usize>>,
}

impl Cfg {
    pub fn json(&self) -> serde_json::Value {
        serde_json::json!({"max_degree": self.max_degree, "num_vars": self.num_vars, "supported_degree": self.supported_degree,
            "supported_hiding": self.supported_hiding, "enforced": self.enforced})
    }
}

#[derive(Clone, Copy, Debug, PartialEq, Eq)]
pub enum Shape {
    Full,       // degree exactly the target, all coefficients random
    Random,     // random degree <= target
    Zero,       // the zero polynomial
    Const,      // a non-zero constant
    LowZeros,   // low-order coefficients zero (skip_leading_zeros path) / sparse hypercube support
    TopMonomial, // a single monomial of the target degree
    Sparse,     // few random non-zero coefficients / mixed monomials
}

pub const SHAPES: [Shape; 7] = [
    Shape::Full,
    Shape::Random,
    Shape::Zero,
    Shape::Const,
    Shape::LowZeros,
    Shape::TopMonomial,
    Shape::Sparse,
];

pub fn pick_shape(rng: &mut impl RngCore) -> Shape {
    match rng.next_u32() % 16 {
        0..=4 => Shape::Full,
        5..=8 => Shape::Random,
        9 => Shape::Zero,
        10 => Shape::Const,
        11..=12 => Shape::LowZeros,
        13 => Shape::TopMonomial,
        _ => Shape::Sparse,
    }
}

#[derive(Clone, Copy, Debug, PartialEq, Eq)]
pub enum Kind {
    Univariate,
    Multivariate,
    Multilinear,
}

pub fn below(rng: &mut impl RngCore, n: usize) -> usize {
    if n == 0 {
        0
    } else {
        (rng.next_u64() % n as u64) as usize
    }
}

pub fn range(rng: &mut impl RngCore, lo: usize, hi: usize) -> usize {
    // inclusive
    lo + below(rng, hi - lo + 1)
}

/// Skewed degree generator: small values and 2^k, 2^k +- 1 are over-represented.
pub fn skewed(rng: &mut impl RngCore, lo: usize, hi: usize) -> usize {
    let v = match rng.next_u32() % 4 {
        0 => range(rng, lo, hi.min(lo + 4)),
        1 => {
            let k = range(rng, 0, 7);
            let base = 1usize << k;
            match rng.next_u32() % 3 {
                0 => base.saturating_sub(1),
                1 => base,
                _ => base + 1,
            }
        }
        _ => range(rng, lo, hi),
    };
    v.clamp(lo, hi)
}

pub trait Scheme: Sized + 'static {
    type F: PrimeField + Absorb;
    type P: Polynomial<Self::F>;
    type PC: PolynomialCommitment<Self::F, Self::P>;
    const NAME: &'static str;
    const KIND: Kind;
    /// enforces per-polynomial degree bounds
    const BOUNDS: bool;
    /// supports hiding bounds
    const HIDING: bool;
    /// commit / open need an RNG even without hiding
    const ALWAYS_RNG: bool = false;
    /// relative cost weight of one transcript (used to scale case counts)
    const WEIGHT: u64 = 1;

    fn gen_cfg(rng: &mut impl RngCore, thorough: bool) -> Cfg;
    /// polynomial of the given shape with degree (or variable count) taken from cfg; `deg` is the
    /// target degree for univariate / total degree for multivariate schemes
    fn gen_poly(cfg: &Cfg, shape: Shape, deg: usize, rng: &mut impl RngCore) -> Self::P;
    fn gen_point(cfg: &Cfg, rng: &mut impl RngCore) -> <Self::P as Polynomial<Self::F>>::Point;
    /// a point different from `z`
    fn other_point(
        cfg: &Cfg,
        z: &<Self::P as Polynomial<Self::F>>::Point,
        rng: &mut impl RngCore,
    ) -> <Self::P as Polynomial<Self::F>>::Point {
        loop {
            let p = Self::gen_point(cfg, rng);
            if &p != z {
                return p;
            }
        }
    }
    fn point_json(z: &<Self::P as Polynomial<Self::F>>::Point) -> serde_json::Value;
    /// largest degree a polynomial may have under this configuration
    fn max_poly_degree(cfg: &Cfg) -> usize {
        cfg.supported_degree
    }
    /// is `p` a constant polynomial (C11's negative cases are restricted to non-constant ones)
    fn is_constant(p: &Self::P) -> bool {
        p.degree() == 0
    }
    /// The label's degree bound as reported on commitments of polynomials without bound.
    fn default_comm_bound() -> Option<usize> {
        None
    }
    /// A world built from the scheme's PUBLIC parameter constructor instead of setup / trim (linear-code schemes:
    /// other security levels, rates that are not powers of two, well-formedness check off). None: use setup / trim.
    fn custom_world(_cfg: &Cfg, _rng: &mut rand_chacha::ChaCha20Rng) -> Option<crate::scen::World<Self>> {
        None
    }
    /// Does the transcript bind a proof for `p` only through a handful of small column indices (linear codes with
    /// the well-formedness check off and a very short codeword)? Then a proof may legitimately verify under another
    /// transcript state, with probability n^-t.
    fn transcript_binds_weakly(_w: &crate::scen::World<Self>, _p: &Self::P) -> bool {
        false
    }
    /// Does the scheme use the trait's default open_combinations / check_combinations (which skip query-set entries
    /// whose label names none of the given combinations)?
    fn default_combinations() -> bool {
        matches!(Self::NAME, "hyrax" | "ligero-uni" | "ligero-ml" | "brakedown")
    }
    /// KZG-style proofs: move the blinding evaluation of proof `a` onto proof `b` (the sum of the two is
    /// unchanged). Returns false if the scheme has no such field or `a` carries no non-zero blinding.
    fn move_blinding(
        _a: &mut <Self::PC as PolynomialCommitment<Self::F, Self::P>>::Proof,
        _b: &mut <Self::PC as PolynomialCommitment<Self::F, Self::P>>::Proof,
    ) -> bool {
        false
    }
}

fn move_rv<F: PrimeField>(a: &mut Option<F>, b: &mut Option<F>) -> bool {
    match *a {
        Some(ra) if !ra.is_zero() => {
            *b = Some(b.unwrap_or(F::zero()) + ra);
            *a = None;
            true
        }
        _ => false,
    }
}

// ---------------------------------------------------------------- univariate helpers

pub fn uni_poly<F: PrimeField>(shape: Shape, deg: usize, rng: &mut impl RngCore) -> DensePolynomial<F> {
    let nz = |rng: &mut dyn RngCore| loop {
        let x = F::rand(rng);
        if !x.is_zero() {
            return x;
        }
    };
    match shape {
        Shape::Zero => DensePolynomial::zero(),
        Shape::Const => DensePolynomial::from_coefficients_vec(vec![nz(rng)]),
        Shape::Full => {
            let mut c: Vec<F> = (0..=deg).map(|_| F::rand(rng)).collect();
            c[deg] = nz(rng);
            DensePolynomial::from_coefficients_vec(c)
        }
        Shape::Random => {
            let d = below(rng, deg + 1);
            let mut c: Vec<F> = (0..=d).map(|_| F::rand(rng)).collect();
            c[d] = nz(rng);
            DensePolynomial::from_coefficients_vec(c)
        }
        Shape::LowZeros => {
            let mut c: Vec<F> = (0..=deg).map(|_| F::rand(rng)).collect();
            c[deg] = nz(rng);
            let k = below(rng, deg + 1);
            for x in c.iter_mut().take(k) {
                *x = F::zero();
            }
            DensePolynomial::from_coefficients_vec(c)
        }
        Shape::TopMonomial => {
            let mut c = vec![F::zero(); deg + 1];
            c[deg] = nz(rng);
            DensePolynomial::from_coefficients_vec(c)
        }
        Shape::Sparse => {
            let mut c = vec![F::zero(); deg + 1];
            for _ in 0..3 {
                let i = below(rng, deg + 1);
                c[i] = F::rand(rng);
            }
            DensePolynomial::from_coefficients_vec(c)
        }
    }
}

/// When set (C01 only), generated evaluation points are sometimes special field elements
/// (0, 1, -1, 2): completeness is claimed at every point, not just at random ones.
pub static SPECIAL_POINTS: std::sync::atomic::AtomicBool = std::sync::atomic::AtomicBool::new(false);

pub fn pt_fe<F: PrimeField>(rng: &mut impl RngCore) -> F {
    if SPECIAL_POINTS.load(std::sync::atomic::Ordering::Relaxed) && rng.next_u32() % 8 == 0 {
        return match rng.next_u32() % 4 {
            0 => F::zero(),
            1 => F::one(),
            2 => -F::one(),
            _ => F::from(2u64),
        };
    }
    F::rand(rng)
}

/// When set, every scheme's configuration generator returns a LARGE configuration (polynomials with
/// more than a thousand coefficients): size thresholds inside the library (blocked conversions, chunked
/// sums, matrix shapes) lie far above the small scenarios that make up the bulk of the workloads.
pub static LARGE: std::sync::atomic::AtomicBool = std::sync::atomic::AtomicBool::new(false);

/// When set, `make_world` builds linear-code worlds from the public parameter constructors half of the time.
pub static CUSTOM_PARAMS: std::sync::atomic::AtomicBool = std::sync::atomic::AtomicBool::new(false);

pub fn set_custom_params(on: bool) {
    CUSTOM_PARAMS.store(on, std::sync::atomic::Ordering::Relaxed);
}

fn ligero_custom(rng: &mut rand_chacha::ChaCha20Rng) -> Option<LigeroPCParams<LFr, MtParams, ColHasher<LFr>>> {
    if !CUSTOM_PARAMS.load(std::sync::atomic::Ordering::Relaxed) || rng.next_u32() % 2 == 0 {
        return None;
    }
    let sec = [128usize, 100, 64][below(rng, 3)];
    let rho = [2usize, 3, 4, 5, 6, 7, 8][below(rng, 7)];
    let wf = rng.next_u32() % 3 != 0;
    Some(LigeroPCParams::new(sec, rho, wf, (), (), ()))
}

pub fn is_large() -> bool {
    LARGE.load(std::sync::atomic::Ordering::Relaxed)
}

pub fn set_large(on: bool) {
    LARGE.store(on, std::sync::atomic::Ordering::Relaxed);
}

pub fn large_cfg(kind: Kind, bounds: bool, rng: &mut impl RngCore, thorough: bool) -> Option<Cfg> {
    if !LARGE.load(std::sync::atomic::Ordering::Relaxed) {
        return None;
    }
    Some(match kind {
        Kind::Univariate => {
            let max_degree = match rng.next_u32() % 4 {
                0 => [1023usize, 1024, 1025, 2047, 2048][(rng.next_u32() % 5) as usize],
                _ => range(rng, 1023, if thorough { 4200 } else { 2100 }),
            };
            let supported_degree = if rng.next_u32() % 2 == 0 { max_degree } else { range(rng, 1023.min(max_degree), max_degree) };
            let enforced = if bounds {
                match rng.next_u32() % 3 {
                    0 => None,
                    1 => Some(vec![supported_degree]),
                    _ => Some(vec![range(rng, 1, supported_degree), supported_degree, range(rng, 1000.min(supported_degree), supported_degree)]),
                }
            } else {
                None
            };
            Cfg { max_degree, num_vars: None, supported_degree, supported_hiding: range(rng, 1, 3), enforced }
        }
        Kind::Multivariate => Cfg { max_degree: 11, num_vars: Some(4), supported_degree: 11, supported_hiding: 1, enforced: None },
        Kind::Multilinear => Cfg { max_degree: 1, num_vars: Some([10usize, 11, 12, 12][(rng.next_u32() % 4) as usize]), supported_degree: 1, supported_hiding: 1, enforced: None },
    })
}

fn uni_cfg(rng: &mut impl RngCore, with_bounds: bool, bounds_le_supported: bool, max_cap: usize) -> Cfg {
    let max_degree = skewed(rng, 1, max_cap);
    let supported_degree = if rng.next_u32() % 3 == 0 { max_degree } else { skewed(rng, 1, max_degree) };
    let supported_hiding = match rng.next_u32() % 8 {
        0 | 1 => 0,
        2 | 3 => 1,
        // the largest hiding bounds the parameters admit
        4 => supported_degree,
        5 => max_degree,
        _ => range(rng, 1, supported_degree.max(1)),
    };
    let enforced = if with_bounds {
        match rng.next_u32() % 6 {
            0 => None,
            1 => Some(vec![]),
            _ => {
                let top = if bounds_le_supported { supported_degree } else if rng.next_u32() % 3 == 0 { max_degree } else { supported_degree };
                let n = range(rng, 1, 4);
                let mut v: Vec<usize> = (0..n).map(|_| skewed(rng, 1, top.max(1))).collect();
                if rng.next_u32() % 2 == 0 {
                    v.push(supported_degree);
                }
                if rng.next_u32() % 3 == 0 {
                    // the smallest bound a constant polynomial can carry
                    v.insert(below(rng, v.len() + 1), 0);
                }
                if rng.next_u32() % 3 == 0 {
                    // duplicate and leave unsorted on purpose
                    let d = v[0];
                    v.push(d);
                }
                Some(v)
            }
        }
    } else {
        None
    };
    Cfg { max_degree, num_vars: None, supported_degree, supported_hiding, enforced }
}

pub trait CurveTag {
    const TAG: &'static str;
    const MARLIN: &'static str;
    const SONIC: &'static str;
    const PST13: &'static str;
}
impl CurveTag for ark_bls12_381::Bls12_381 {
    const TAG: &'static str = "bls12-381";
    const MARLIN: &'static str = "marlin";
    const SONIC: &'static str = "sonic";
    const PST13: &'static str = "pst13";
}
impl CurveTag for ark_bls12_377::Bls12_377 {
    const TAG: &'static str = "bls12-377";
    const MARLIN: &'static str = "marlin-377";
    const SONIC: &'static str = "sonic-377";
    const PST13: &'static str = "pst13-377";
}

// ---------------------------------------------------------------- Marlin KZG10

pub struct MarlinS<E>(PhantomData<E>);
impl<E: Pairing + CurveTag> Scheme for MarlinS<E>
where
    E::ScalarField: Absorb,
{
    type F = E::ScalarField;
    type P = DensePolynomial<E::ScalarField>;
    type PC = MarlinKZG10<E, DensePolynomial<E::ScalarField>>;
    const NAME: &'static str = E::MARLIN;
    const KIND: Kind = Kind::Univariate;
    const BOUNDS: bool = true;
    const HIDING: bool = true;
    const WEIGHT: u64 = 2;
    fn gen_cfg(rng: &mut impl RngCore, _t: bool) -> Cfg {
        if let Some(c) = large_cfg(Self::KIND, Self::BOUNDS, rng, _t) {
            return c;
        }
        // Marlin admits enforced bounds in (supported, max]
        uni_cfg(rng, true, false, 64)
    }
    fn gen_poly(_cfg: &Cfg, shape: Shape, deg: usize, rng: &mut impl RngCore) -> Self::P {
        uni_poly(shape, deg, rng)
    }
    fn gen_point(_cfg: &Cfg, rng: &mut impl RngCore) -> Self::F {
        pt_fe(rng)
    }
    fn point_json(z: &Self::F) -> serde_json::Value {
        serde_json::json!(crate::ju::fe(z))
    }
    fn move_blinding(a: &mut <Self::PC as PolynomialCommitment<Self::F, Self::P>>::Proof, b: &mut <Self::PC as PolynomialCommitment<Self::F, Self::P>>::Proof) -> bool {
        move_rv(&mut a.random_v, &mut b.random_v)
    }
}

// ---------------------------------------------------------------- Sonic KZG10

pub struct SonicS<E>(PhantomData<E>);
impl<E: Pairing + CurveTag> Scheme for SonicS<E>
where
    E::ScalarField: Absorb,
{
    type F = E::ScalarField;
    type P = DensePolynomial<E::ScalarField>;
    type PC = SonicKZG10<E, DensePolynomial<E::ScalarField>>;
    const NAME: &'static str = E::SONIC;
    const KIND: Kind = Kind::Univariate;
    const BOUNDS: bool = true;
    const HIDING: bool = true;
    const WEIGHT: u64 = 3;
    fn gen_cfg(rng: &mut impl RngCore, _t: bool) -> Cfg {
        if let Some(c) = large_cfg(Self::KIND, Self::BOUNDS, rng, _t) {
            return c;
        }
        uni_cfg(rng, true, true, 64)
    }
    fn gen_poly(_cfg: &Cfg, shape: Shape, deg: usize, rng: &mut impl RngCore) -> Self::P {
        uni_poly(shape, deg, rng)
    }
    fn gen_point(_cfg: &Cfg, rng: &mut impl RngCore) -> Self::F {
        pt_fe(rng)
    }
    fn point_json(z: &Self::F) -> serde_json::Value {
        serde_json::json!(crate::ju::fe(z))
    }
    fn move_blinding(a: &mut <Self::PC as PolynomialCommitment<Self::F, Self::P>>::Proof, b: &mut <Self::PC as PolynomialCommitment<Self::F, Self::P>>::Proof) -> bool {
        move_rv(&mut a.random_v, &mut b.random_v)
    }
}

// ---------------------------------------------------------------- IPA

pub struct IpaS;
impl Scheme for IpaS {
    type F = JFr;
    type P = DensePolynomial<JFr>;
    type PC = InnerProductArgPC<JubJub, Blake2s256, DensePolynomial<JFr>>;
    const NAME: &'static str = "ipa";
    const KIND: Kind = Kind::Univariate;
    const BOUNDS: bool = true;
    const HIDING: bool = true;
    fn gen_cfg(rng: &mut impl RngCore, _t: bool) -> Cfg {
        if let Some(c) = large_cfg(Self::KIND, Self::BOUNDS, rng, _t) {
            return c;
        }
        let mut c = uni_cfg(rng, true, true, 64);
        // IPA ignores the enforced list and hiding support; keep them for the call but they are not binding
        c.supported_hiding = c.supported_hiding.max(1);
        c
    }
    fn gen_poly(_cfg: &Cfg, shape: Shape, deg: usize, rng: &mut impl RngCore) -> Self::P {
        uni_poly(shape, deg, rng)
    }
    fn gen_point(_cfg: &Cfg, rng: &mut impl RngCore) -> JFr {
        pt_fe(rng)
    }
    fn point_json(z: &JFr) -> serde_json::Value {
        serde_json::json!(crate::ju::fe(z))
    }
    fn max_poly_degree(cfg: &Cfg) -> usize {
        // trim rounds supported_degree up to 2^k - 1
        (cfg.supported_degree + 1).next_power_of_two() - 1
    }
}

// ---------------------------------------------------------------- PST13

pub type MvPoly<F> = SparsePolynomial<F, SparseTerm>;

/// all exponent vectors of total degree exactly `d` in `nv` variables
pub fn monomials_of_degree(nv: usize, d: usize) -> Vec<Vec<usize>> {
    fn rec(nv: usize, d: usize, cur: &mut Vec<usize>, out: &mut Vec<Vec<usize>>) {
        if cur.len() == nv - 1 {
            let mut v = cur.clone();
            v.push(d);
            out.push(v);
            return;
        }
        for e in 0..=d {
            cur.push(e);
            rec(nv, d - e, cur, out);
            cur.pop();
        }
    }
    let mut out = Vec::new();
    if nv == 0 {
        return out;
    }
    rec(nv, d, &mut Vec::new(), &mut out);
    out
}

pub fn term_of(exp: &[usize]) -> SparseTerm {
    SparseTerm::new(exp.iter().enumerate().filter(|(_, e)| **e > 0).map(|(i, e)| (i, *e)).collect())
}

pub fn rand_monomial(nv: usize, d: usize, rng: &mut impl RngCore) -> Vec<usize> {
    // random exponent vector of total degree exactly d
    let mut e = vec![0usize; nv];
    for _ in 0..d {
        e[below(rng, nv)] += 1;
    }
    e
}

pub fn mv_poly<F: PrimeField>(nv: usize, shape: Shape, deg: usize, rng: &mut impl RngCore) -> MvPoly<F> {
    let nz = |rng: &mut dyn RngCore| loop {
        let x = F::rand(rng);
        if !x.is_zero() {
            return x;
        }
    };
    let mut terms: Vec<(F, SparseTerm)> = Vec::new();
    match shape {
        Shape::Zero => {}
        Shape::Const => terms.push((nz(rng), SparseTerm::new(vec![]))),
        Shape::Full => {
            // dense over all monomials up to deg (bounded size), otherwise a large random subset
            let mut count = 0usize;
            for d in 0..=deg {
                for m in monomials_of_degree(nv, d) {
                    if count < 400 || rng.next_u32() % 4 == 0 {
                        terms.push((nz(rng), term_of(&m)));
                        count += 1;
                    }
                }
            }
            terms.push((nz(rng), term_of(&rand_monomial(nv, deg, rng))));
        }
        Shape::Random | Shape::Sparse => {
            let d = if shape == Shape::Random { below(rng, deg + 1) } else { deg };
            let n = range(rng, 1, 8);
            for _ in 0..n {
                let dd = below(rng, d + 1);
                terms.push((F::rand(rng), term_of(&rand_monomial(nv, dd, rng))));
            }
            terms.push((nz(rng), term_of(&rand_monomial(nv, d, rng))));
        }
        Shape::LowZeros => {
            // only top-degree mixed monomials, no constant / linear part
            let n = range(rng, 1, 6);
            for _ in 0..n {
                terms.push((nz(rng), term_of(&rand_monomial(nv, deg, rng))));
            }
        }
        Shape::TopMonomial => terms.push((nz(rng), term_of(&rand_monomial(nv, deg, rng)))),
    }
    // permute term order: the constructor must normalise it
    for i in (1..terms.len()).rev() {
        let j = below(rng, i + 1);
        terms.swap(i, j);
    }
    MvPoly::from_coefficients_vec(nv, terms)
}

pub struct Pst13S<E>(PhantomData<E>);
impl<E: Pairing + CurveTag> Scheme for Pst13S<E>
where
    E::ScalarField: Absorb,
{
    type F = E::ScalarField;
    type P = MvPoly<E::ScalarField>;
    type PC = MarlinPST13<E, MvPoly<E::ScalarField>>;
    const NAME: &'static str = E::PST13;
    const KIND: Kind = Kind::Multivariate;
    const BOUNDS: bool = false;
    const HIDING: bool = true;
    const WEIGHT: u64 = 4;
    fn gen_cfg(rng: &mut impl RngCore, _t: bool) -> Cfg {
        if let Some(c) = large_cfg(Self::KIND, Self::BOUNDS, rng, _t) {
            return c;
        }
        let nv = range(rng, 1, 5);
        let cap = match nv {
            1 => 8,
            2 => 6,
            3 => 5,
            4 => 4,
            _ => 3,
        };
        let max_degree = range(rng, 1, cap);
        let supported_degree = if rng.next_u32() % 2 == 0 { max_degree } else { range(rng, 1, max_degree) };
        let supported_hiding = range(rng, 1, supported_degree);
        Cfg { max_degree, num_vars: Some(nv), supported_degree, supported_hiding, enforced: None }
    }
    fn gen_poly(cfg: &Cfg, shape: Shape, deg: usize, rng: &mut impl RngCore) -> Self::P {
        mv_poly(cfg.num_vars.unwrap(), shape, deg, rng)
    }
    fn gen_point(cfg: &Cfg, rng: &mut impl RngCore) -> Vec<Self::F> {
        (0..cfg.num_vars.unwrap()).map(|_| pt_fe(rng)).collect()
    }
    fn point_json(z: &Vec<Self::F>) -> serde_json::Value {
        serde_json::json!(crate::ju::fes(z))
    }
    fn move_blinding(a: &mut <Self::PC as PolynomialCommitment<Self::F, Self::P>>::Proof, b: &mut <Self::PC as PolynomialCommitment<Self::F, Self::P>>::Proof) -> bool {
        move_rv(&mut a.random_v, &mut b.random_v)
    }
}

// ---------------------------------------------------------------- multilinear helpers

pub fn ml_poly<F: PrimeField>(nv: usize, shape: Shape, rng: &mut impl RngCore) -> DenseMultilinearExtension<F> {
    let n = 1usize << nv;
    let ev: Vec<F> = match shape {
        Shape::Zero => vec![F::zero(); n],
        Shape::Const => {
            let c = F::rand(rng) + F::one();
            vec![c; n]
        }
        Shape::Full | Shape::Random => (0..n).map(|_| F::rand(rng)).collect(),
        Shape::LowZeros => {
            let k = below(rng, n);
            (0..n).map(|i| if i < k { F::zero() } else { F::rand(rng) }).collect()
        }
        Shape::TopMonomial => {
            let mut v = vec![F::zero(); n];
            v[n - 1] = F::rand(rng) + F::one();
            v
        }
        Shape::Sparse => {
            let mut v = vec![F::zero(); n];
            for _ in 0..3 {
                let i = below(rng, n);
                v[i] = F::rand(rng);
            }
            v
        }
    };
    DenseMultilinearExtension::from_evaluations_vec(nv, ev)
}

pub fn ml_is_constant<F: PrimeField>(p: &DenseMultilinearExtension<F>) -> bool {
    p.evaluations.iter().all(|e| *e == p.evaluations[0])
}

// ---------------------------------------------------------------- Hyrax

pub struct HyraxS;
impl Scheme for HyraxS {
    type F = JFr;
    type P = DenseMultilinearExtension<JFr>;
    type PC = HyraxPC<JubJub, DenseMultilinearExtension<JFr>>;
    const NAME: &'static str = "hyrax";
    const KIND: Kind = Kind::Multilinear;
    const BOUNDS: bool = false;
    const HIDING: bool = false;
    const ALWAYS_RNG: bool = true;
    fn gen_cfg(rng: &mut impl RngCore, thorough: bool) -> Cfg {
        if let Some(mut c) = large_cfg(Self::KIND, Self::BOUNDS, rng, thorough) {
            // Hyrax needs an even number of variables
            c.num_vars = c.num_vars.map(|v| v + v % 2);
            return c;
        }
        let nv = 2 * range(rng, 0, if thorough { 4 } else { 3 });
        Cfg { max_degree: 1, num_vars: Some(nv), supported_degree: 1, supported_hiding: 1, enforced: None }
    }
    fn gen_poly(cfg: &Cfg, shape: Shape, _deg: usize, rng: &mut impl RngCore) -> Self::P {
        ml_poly(cfg.num_vars.unwrap(), shape, rng)
    }
    fn gen_point(cfg: &Cfg, rng: &mut impl RngCore) -> Vec<JFr> {
        (0..cfg.num_vars.unwrap()).map(|_| pt_fe(rng)).collect()
    }
    fn other_point(cfg: &Cfg, z: &Vec<JFr>, rng: &mut impl RngCore) -> Vec<JFr> {
        if z.is_empty() {
            return z.clone();
        }
        loop {
            let p = Self::gen_point(cfg, rng);
            if &p != z {
                return p;
            }
        }
    }
    fn point_json(z: &Vec<JFr>) -> serde_json::Value {
        serde_json::json!(crate::ju::fes(z))
    }
    fn is_constant(p: &Self::P) -> bool {
        ml_is_constant(p)
    }
    fn default_comm_bound() -> Option<usize> {
        Some(1)
    }
}

// ---------------------------------------------------------------- linear codes

pub struct LeafIdentityHasher;
impl CRHScheme for LeafIdentityHasher {
    type Input = Vec<u8>;
    type Output = Vec<u8>;
    type Parameters = ();
    fn setup<R: ark_std::rand::Rng>(_: &mut R) -> Result<Self::Parameters, ark_crypto_primitives::Error> {
        Ok(())
    }
    fn evaluate<T: Borrow<Self::Input>>(_: &Self::Parameters, input: T) -> Result<Self::Output, ark_crypto_primitives::Error> {
        Ok(input.borrow().to_vec())
    }
}

pub struct ColHasher<F>(PhantomData<F>);
impl<F: PrimeField> CRHScheme for ColHasher<F> {
    type Input = Vec<F>;
    type Output = Vec<u8>;
    type Parameters = ();
    fn setup<R: ark_std::rand::Rng>(_: &mut R) -> Result<Self::Parameters, ark_crypto_primitives::Error> {
        Ok(())
    }
    fn evaluate<T: Borrow<Self::Input>>(_: &Self::Parameters, input: T) -> Result<Self::Output, ark_crypto_primitives::Error> {
        use digest::Digest;
        let mut bytes = Vec::new();
        input.borrow().serialize_compressed(&mut bytes).unwrap();
        let mut d = Blake2s256::new();
        d.update(&bytes);
        Ok(d.finalize().to_vec())
    }
}

pub struct MtParams;
impl MtConfig for MtParams {
    type Leaf = Vec<u8>;
    type LeafDigest = <LeafIdentityHasher as CRHScheme>::Output;
    type LeafInnerDigestConverter = ByteDigestConverter<Self::LeafDigest>;
    type InnerDigest = <Sha256 as TwoToOneCRHScheme>::Output;
    type LeafHash = LeafIdentityHasher;
    type TwoToOneHash = Sha256;
}

pub type LFr = ark_bls12_381::Fr;
pub type UniLigeroPC = LinearCodePCS<
    UnivariateLigero<LFr, MtParams, DensePolynomial<LFr>, ColHasher<LFr>>,
    LFr,
    DensePolynomial<LFr>,
    MtParams,
    ColHasher<LFr>,
>;
pub type MlLigeroPC = LinearCodePCS<
    MultilinearLigero<LFr, MtParams, DenseMultilinearExtension<LFr>, ColHasher<LFr>>,
    LFr,
    DenseMultilinearExtension<LFr>,
    MtParams,
    ColHasher<LFr>,
>;
pub type BrakedownPC = LinearCodePCS<
    MultilinearBrakedown<LFr, MtParams, DenseMultilinearExtension<LFr>, ColHasher<LFr>>,
    LFr,
    DenseMultilinearExtension<LFr>,
    MtParams,
    ColHasher<LFr>,
>;
pub type UniLigeroEnc = UnivariateLigero<LFr, MtParams, DensePolynomial<LFr>, ColHasher<LFr>>;
pub type MlLigeroEnc = MultilinearLigero<LFr, MtParams, DenseMultilinearExtension<LFr>, ColHasher<LFr>>;
pub type BrakedownEnc = MultilinearBrakedown<LFr, MtParams, DenseMultilinearExtension<LFr>, ColHasher<LFr>>;

pub struct UniLigeroS;
impl Scheme for UniLigeroS {
    type F = LFr;
    type P = DensePolynomial<LFr>;
    type PC = UniLigeroPC;
    const NAME: &'static str = "ligero-uni";
    const KIND: Kind = Kind::Univariate;
    const BOUNDS: bool = false;
    const HIDING: bool = false;
    fn custom_world(cfg: &Cfg, rng: &mut rand_chacha::ChaCha20Rng) -> Option<crate::scen::World<Self>> {
        let ck = ligero_custom(rng)?;
        Some(crate::scen::World { cfg: cfg.clone(), pp: ck.clone(), ck: ck.clone(), vk: ck })
    }
    fn transcript_binds_weakly(w: &crate::scen::World<Self>, p: &Self::P) -> bool {
        use ark_poly_commit::linear_codes::LinCodeParametersInfo;
        !w.ck.check_well_formedness() && p.degree() + 1 < 64
    }
    fn gen_cfg(rng: &mut impl RngCore, thorough: bool) -> Cfg {
        if let Some(c) = large_cfg(Self::KIND, Self::BOUNDS, rng, thorough) {
            return c;
        }
        let cap = if thorough { 600 } else { 200 };
        let d = match rng.next_u32() % 4 {
            0 => skewed(rng, 1, 64),
            // around the size (380 coefficients at the default parameters) where the coefficient matrix grows
            // from two to four rows: polynomials of one opening then have matrices of different heights
            1 => range(rng, 340, 800),
            _ => range(rng, 1, cap),
        };
        Cfg { max_degree: d, num_vars: None, supported_degree: d, supported_hiding: 0, enforced: None }
    }
    fn gen_poly(_cfg: &Cfg, shape: Shape, deg: usize, rng: &mut impl RngCore) -> Self::P {
        uni_poly(shape, deg, rng)
    }
    fn gen_point(_cfg: &Cfg, rng: &mut impl RngCore) -> LFr {
        pt_fe(rng)
    }
    fn point_json(z: &LFr) -> serde_json::Value {
        serde_json::json!(crate::ju::fe(z))
    }
}

pub struct MlLigeroS;
impl Scheme for MlLigeroS {
    type F = LFr;
    type P = DenseMultilinearExtension<LFr>;
    type PC = MlLigeroPC;
    const NAME: &'static str = "ligero-ml";
    const KIND: Kind = Kind::Multilinear;
    const BOUNDS: bool = false;
    const HIDING: bool = false;
    fn custom_world(cfg: &Cfg, rng: &mut rand_chacha::ChaCha20Rng) -> Option<crate::scen::World<Self>> {
        let ck = ligero_custom(rng)?;
        Some(crate::scen::World { cfg: cfg.clone(), pp: ck.clone(), ck: ck.clone(), vk: ck })
    }
    fn transcript_binds_weakly(w: &crate::scen::World<Self>, p: &Self::P) -> bool {
        use ark_poly_commit::linear_codes::LinCodeParametersInfo;
        !w.ck.check_well_formedness() && (1usize << p.num_vars) < 64
    }
    fn gen_cfg(rng: &mut impl RngCore, thorough: bool) -> Cfg {
        if let Some(c) = large_cfg(Self::KIND, Self::BOUNDS, rng, thorough) {
            return c;
        }
        let nv = range(rng, 1, if thorough { 9 } else { 7 });
        Cfg { max_degree: 1, num_vars: Some(nv), supported_degree: 1, supported_hiding: 0, enforced: None }
    }
    fn gen_poly(cfg: &Cfg, shape: Shape, _deg: usize, rng: &mut impl RngCore) -> Self::P {
        ml_poly(cfg.num_vars.unwrap(), shape, rng)
    }
    fn gen_point(cfg: &Cfg, rng: &mut impl RngCore) -> Vec<LFr> {
        (0..cfg.num_vars.unwrap()).map(|_| pt_fe(rng)).collect()
    }
    fn point_json(z: &Vec<LFr>) -> serde_json::Value {
        serde_json::json!(crate::ju::fes(z))
    }
    fn is_constant(p: &Self::P) -> bool {
        ml_is_constant(p)
    }
}

pub struct BrakedownS;
impl Scheme for BrakedownS {
    type F = LFr;
    type P = DenseMultilinearExtension<LFr>;
    type PC = BrakedownPC;
    const NAME: &'static str = "brakedown";
    const KIND: Kind = Kind::Multilinear;
    const BOUNDS: bool = false;
    const HIDING: bool = false;
    const WEIGHT: u64 = 2;
    fn custom_world(cfg: &Cfg, rng: &mut rand_chacha::ChaCha20Rng) -> Option<crate::scen::World<Self>> {
        if !CUSTOM_PARAMS.load(std::sync::atomic::Ordering::Relaxed) || rng.next_u32() % 2 == 0 {
            return None;
        }
        let wf = rng.next_u32() % 3 != 0;
        let ck = ark_poly_commit::linear_codes::BrakedownPCParams::<LFr, MtParams, ColHasher<LFr>>::default(rng, 1usize << cfg.num_vars.unwrap_or(1), wf, (), (), ());
        Some(crate::scen::World { cfg: cfg.clone(), pp: ck.clone(), ck: ck.clone(), vk: ck })
    }
    fn transcript_binds_weakly(w: &crate::scen::World<Self>, p: &Self::P) -> bool {
        use ark_poly_commit::linear_codes::LinCodeParametersInfo;
        !w.ck.check_well_formedness() && (1usize << p.num_vars) < 64
    }
    fn gen_cfg(rng: &mut impl RngCore, thorough: bool) -> Cfg {
        if let Some(c) = large_cfg(Self::KIND, Self::BOUNDS, rng, thorough) {
            return c;
        }
        let nv = range(rng, 1, if thorough { 9 } else { 7 });
        Cfg { max_degree: 1, num_vars: Some(nv), supported_degree: 1, supported_hiding: 0, enforced: None }
    }
    fn gen_poly(cfg: &Cfg, shape: Shape, _deg: usize, rng: &mut impl RngCore) -> Self::P {
        ml_poly(cfg.num_vars.unwrap(), shape, rng)
    }
    fn gen_point(cfg: &Cfg, rng: &mut impl RngCore) -> Vec<LFr> {
        (0..cfg.num_vars.unwrap()).map(|_| pt_fe(rng)).collect()
    }
    fn point_json(z: &Vec<LFr>) -> serde_json::Value {
        serde_json::json!(crate::ju::fes(z))
    }
    fn is_constant(p: &Self::P) -> bool {
        ml_is_constant(p)
    }
}

pub type E381 = ark_bls12_381::Bls12_381;
pub type E377 = ark_bls12_377::Bls12_377;

/// Run `$body` once per trait scheme with `$S` bound to the adapter type.
#[macro_export]
macro_rules! for_each_scheme {
    ($ctx:expr, $S:ident, $body:block) => {{
        {
            type $S = $crate::schemes::MarlinS<$crate::schemes::E381>;
            $body
        }
        {
            type $S = $crate::schemes::SonicS<$crate::schemes::E381>;
            $body
        }
        {
            type $S = $crate::schemes::IpaS;
            $body
        }
        {
            type $S = $crate::schemes::Pst13S<$crate::schemes::E381>;
            $body
        }
        {
            type $S = $crate::schemes::HyraxS;
            $body
        }
        {
            type $S = $crate::schemes::UniLigeroS;
            $body
        }
        {
            type $S = $crate::schemes::MlLigeroS;
            $body
        }
        {
            type $S = $crate::schemes::BrakedownS;
            $body
        }
        if $ctx.is_thorough() {
            {
                type $S = $crate::schemes::MarlinS<$crate::schemes::E377>;
                $body
            }
            {
                type $S = $crate::schemes::SonicS<$crate::schemes::E377>;
                $body
            }
            {
                type $S = $crate::schemes::Pst13S<$crate::schemes::E377>;
                $body
            }
        }
    }};
}
