//! Boundary probes: a recording sponge and a monitoring RNG. Both delegate every
//! operation to the wrapped object so the library's behaviour is bit-identical.

use ark_crypto_primitives::sponge::{
    poseidon::{PoseidonConfig, PoseidonSponge},
    Absorb, CryptographicSponge, FieldElementSize,
};
use ark_ff::PrimeField;
use rand_chacha::ChaCha20Rng;
use rand_core::{RngCore, SeedableRng};
use sha2::{Digest, Sha256};

#[derive(Clone, Debug, PartialEq, Eq)]
pub enum Ev {
    Absorb { len: usize, dig: u64 },
    SqBytes { n: usize, dig: u64, bytes: Vec<u8> },
    SqBits { n: usize },
    SqFe { sizes: Vec<u16>, dig: u64, vals: Vec<Vec<u8>> },
}

impl Ev {
    pub fn short(&self) -> String {
        match self {
            Ev::Absorb { len, .. } => format!("A{}", len),
            Ev::SqBytes { n, .. } => format!("B{}", n),
            Ev::SqBits { n } => format!("b{}", n),
            Ev::SqFe { sizes, .. } => format!("F{}", sizes.len()),
        }
    }
    pub fn is_squeeze(&self) -> bool {
        !matches!(self, Ev::Absorb { .. })
    }
}

fn dig64(bytes: &[u8]) -> u64 {
    let d = Sha256::digest(bytes);
    u64::from_le_bytes(d[..8].try_into().unwrap())
}

#[derive(Clone)]
pub struct RecSponge<S: CryptographicSponge> {
    pub inner: S,
    pub log: Vec<Ev>,
}

impl<S: CryptographicSponge> RecSponge<S> {
    pub fn wrap(inner: S) -> Self {
        RecSponge { inner, log: Vec::new() }
    }
    pub fn trace(&self) -> String {
        self.log.iter().map(|e| e.short()).collect::<Vec<_>>().join(" ")
    }
    pub fn n_squeezes(&self) -> usize {
        self.log.iter().filter(|e| e.is_squeeze()).count()
    }
    /// All field elements squeezed so far, in order, decoded as `F`.
    pub fn squeezed_fes<F: PrimeField>(&self) -> Vec<F> {
        let mut out = Vec::new();
        for e in &self.log {
            if let Ev::SqFe { vals, .. } = e {
                for b in vals {
                    out.push(ark_serialize::CanonicalDeserialize::deserialize_compressed(&b[..]).expect("squeezed element decodes"));
                }
            }
        }
        out
    }
    /// All byte strings squeezed so far, in order.
    pub fn squeezed_bytes(&self) -> Vec<Vec<u8>> {
        self.log.iter().filter_map(|e| if let Ev::SqBytes { bytes, .. } = e { Some(bytes.clone()) } else { None }).collect()
    }
    pub fn n_absorbs(&self) -> usize {
        self.log.len() - self.n_squeezes()
    }
}

impl<S: CryptographicSponge> CryptographicSponge for RecSponge<S> {
    type Config = S::Config;

    fn new(params: &Self::Config) -> Self {
        RecSponge { inner: S::new(params), log: Vec::new() }
    }

    fn absorb(&mut self, input: &impl Absorb) {
        let b = input.to_sponge_bytes_as_vec();
        self.log.push(Ev::Absorb { len: b.len(), dig: dig64(&b) });
        self.inner.absorb(input);
    }

    fn squeeze_bytes(&mut self, num_bytes: usize) -> Vec<u8> {
        let out = self.inner.squeeze_bytes(num_bytes);
        self.log.push(Ev::SqBytes { n: num_bytes, dig: dig64(&out), bytes: out.clone() });
        out
    }

    fn squeeze_bits(&mut self, num_bits: usize) -> Vec<bool> {
        let out = self.inner.squeeze_bits(num_bits);
        self.log.push(Ev::SqBits { n: num_bits });
        out
    }

    fn squeeze_field_elements_with_sizes<F: PrimeField>(
        &mut self,
        sizes: &[FieldElementSize],
    ) -> Vec<F> {
        let out: Vec<F> = self.inner.squeeze_field_elements_with_sizes(sizes);
        let mut bytes = Vec::new();
        let mut vals = Vec::new();
        for f in &out {
            let mut b = Vec::new();
            ark_serialize::CanonicalSerialize::serialize_compressed(f, &mut b).unwrap();
            bytes.extend_from_slice(&b);
            vals.push(b);
        }
        let sz = sizes
            .iter()
            .map(|s| match s {
                FieldElementSize::Full => 0u16,
                FieldElementSize::Truncated(n) => *n as u16,
            })
            .collect();
        self.log.push(Ev::SqFe { sizes: sz, dig: dig64(&bytes), vals });
        out
    }

    fn squeeze_field_elements<F: PrimeField>(&mut self, num_elements: usize) -> Vec<F> {
        let out: Vec<F> = self.inner.squeeze_field_elements(num_elements);
        let mut bytes = Vec::new();
        let mut vals = Vec::new();
        for f in &out {
            let mut b = Vec::new();
            ark_serialize::CanonicalSerialize::serialize_compressed(f, &mut b).unwrap();
            bytes.extend_from_slice(&b);
            vals.push(b);
        }
        self.log.push(Ev::SqFe { sizes: vec![0u16; num_elements], dig: dig64(&bytes), vals });
        out
    }
}

/// The Poseidon test configuration used by the repository's own tests (shape only; the
/// round constants are derived from a fixed ChaCha stream).
pub fn poseidon_config<F: PrimeField>() -> PoseidonConfig<F> {
    let full_rounds = 8;
    let partial_rounds = 31;
    let alpha = 17;
    let mds = vec![
        vec![F::one(), F::zero(), F::one()],
        vec![F::one(), F::one(), F::zero()],
        vec![F::zero(), F::one(), F::one()],
    ];
    let mut rng = ChaCha20Rng::from_seed([7u8; 32]);
    let mut ark = Vec::new();
    for _ in 0..(full_rounds + partial_rounds) {
        let mut row = Vec::new();
        for _ in 0..3 {
            row.push(F::rand(&mut rng));
        }
        ark.push(row);
    }
    PoseidonConfig::new(full_rounds, partial_rounds, alpha, mds, ark, 2, 1)
}

pub type Sp<F> = RecSponge<PoseidonSponge<F>>;

/// A fresh recording sponge pre-seeded with `pre` (arbitrary caller transcript prefix).
pub fn sponge<F: PrimeField>(pre: &[u8]) -> Sp<F> {
    let mut s = PoseidonSponge::<F>::new(&poseidon_config::<F>());
    if !pre.is_empty() {
        s.absorb(&pre.to_vec());
    }
    RecSponge::wrap(s)
}

/// State fingerprint: squeeze from a clone (equal states <=> equal fingerprints, up to collisions).
pub fn fingerprint<F: PrimeField, S: CryptographicSponge>(s: &S) -> Vec<F> {
    let mut c = s.clone();
    c.squeeze_field_elements::<F>(2)
}

/// RNG wrapper counting what the library draws from the caller's generator.
pub struct MonRng<R: RngCore> {
    pub inner: R,
    pub calls: u64,
    pub bytes: u64,
    hasher: Sha256,
}

impl<R: RngCore> MonRng<R> {
    pub fn new(inner: R) -> Self {
        MonRng { inner, calls: 0, bytes: 0, hasher: Sha256::new() }
    }
    pub fn stream_digest(&self) -> u64 {
        let d = self.hasher.clone().finalize();
        u64::from_le_bytes(d[..8].try_into().unwrap())
    }
}

pub fn mon_rng(seed: u64) -> MonRng<ChaCha20Rng> {
    MonRng::new(ChaCha20Rng::seed_from_u64(seed))
}

impl<R: RngCore> RngCore for MonRng<R> {
    fn next_u32(&mut self) -> u32 {
        let v = self.inner.next_u32();
        self.calls += 1;
        self.bytes += 4;
        self.hasher.update(v.to_le_bytes());
        v
    }
    fn next_u64(&mut self) -> u64 {
        let v = self.inner.next_u64();
        self.calls += 1;
        self.bytes += 8;
        self.hasher.update(v.to_le_bytes());
        v
    }
    fn fill_bytes(&mut self, dest: &mut [u8]) {
        self.inner.fill_bytes(dest);
        self.calls += 1;
        self.bytes += dest.len() as u64;
        self.hasher.update(&*dest);
    }
    fn try_fill_bytes(&mut self, dest: &mut [u8]) -> Result<(), rand_core::Error> {
        self.inner.try_fill_bytes(dest)?;
        self.calls += 1;
        self.bytes += dest.len() as u64;
        self.hasher.update(&*dest);
        Ok(())
    }
}
