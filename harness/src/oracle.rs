//! Independent reference computations (no call into the function under observation).
use ark_ec::{AffineRepr, CurveGroup};
use ark_ff::{PrimeField, Zero};
use sha2::{Digest, Sha256};

/// Naive multi-scalar sum: one scalar multiplication per term, no MSM algorithm.
pub fn naive_msm<G: AffineRepr>(bases: &[G], scalars: &[G::ScalarField]) -> G::Group {
    assert!(bases.len() >= scalars.len(), "naive_msm: {} bases for {} scalars", bases.len(), scalars.len());
    let mut acc = G::Group::zero();
    for (b, s) in bases.iter().zip(scalars) {
        if !s.is_zero() {
            acc += b.mul_bigint(s.into_bigint());
        }
    }
    acc
}

pub fn naive_msm_affine<G: AffineRepr>(bases: &[G], scalars: &[G::ScalarField]) -> G {
    naive_msm(bases, scalars).into_affine()
}

pub fn horner<F: PrimeField>(coeffs: &[F], z: &F) -> F {
    coeffs.iter().rev().fold(F::zero(), |acc, c| acc * z + c)
}

/// Merkle root over byte leaves (identity leaf hash, SHA-256(left || right) inner hash), leaves padded
/// with empty byte strings up to a power of two. Mirrors what the linear-code schemes declare.
pub fn merkle_root(leaves: &[Vec<u8>]) -> Vec<u8> {
    let n = leaves.len().next_power_of_two().max(2);
    // leaf digests enter the first inner layer through their canonical serialization
    // (8-byte little-endian length prefix followed by the bytes); inner digests are raw.
    let mut level: Vec<Vec<u8>> = leaves.iter().map(|l| len_prefixed(l)).collect();
    level.resize(n, len_prefixed(&[]));
    while level.len() > 1 {
        let mut next = Vec::with_capacity(level.len() / 2);
        for pair in level.chunks(2) {
            let mut h = Sha256::new();
            h.update(&pair[0]);
            h.update(&pair[1]);
            next.push(h.finalize().to_vec());
        }
        level = next;
    }
    level.pop().unwrap()
}

/// Authentication path check, independent of ark's `Path::verify`: returns the recomputed root.
pub fn merkle_root_from_path(leaf: &[u8], index: usize, leaf_sibling: &[u8], auth_path_top_down: &[Vec<u8>]) -> Vec<u8> {
    let mut h = Sha256::new();
    let (leaf, leaf_sibling) = (len_prefixed(leaf), len_prefixed(leaf_sibling));
    if index & 1 == 0 {
        h.update(&leaf);
        h.update(&leaf_sibling);
    } else {
        h.update(&leaf_sibling);
        h.update(&leaf);
    }
    let mut cur = h.finalize().to_vec();
    let mut idx = index >> 1;
    for sib in auth_path_top_down.iter().rev() {
        let mut h = Sha256::new();
        if idx & 1 == 0 {
            h.update(&cur);
            h.update(sib);
        } else {
            h.update(sib);
            h.update(&cur);
        }
        cur = h.finalize().to_vec();
        idx >>= 1;
    }
    cur
}

pub fn len_prefixed(b: &[u8]) -> Vec<u8> {
    let mut v = (b.len() as u64).to_le_bytes().to_vec();
    v.extend_from_slice(b);
    v
}

pub fn inner<F: PrimeField>(a: &[F], b: &[F]) -> F {
    a.iter().zip(b).map(|(x, y)| *x * y).sum()
}
