//! Small JSON / digest helpers.
use ark_ff::PrimeField;
use ark_serialize::{CanonicalSerialize, Compress};
use sha2::{Digest, Sha256};

pub fn fe<F: PrimeField>(x: &F) -> String {
    let s = x.into_bigint().to_string();
    s
}

pub fn fes<F: PrimeField>(xs: &[F]) -> Vec<String> {
    xs.iter().map(fe).collect()
}

pub fn ser<T: CanonicalSerialize>(x: &T) -> Vec<u8> {
    let mut v = Vec::new();
    x.serialize_with_mode(&mut v, Compress::No).expect("serialize");
    v
}

pub fn ser_c<T: CanonicalSerialize>(x: &T) -> Vec<u8> {
    let mut v = Vec::new();
    x.serialize_with_mode(&mut v, Compress::Yes).expect("serialize");
    v
}

pub fn hex(b: &[u8]) -> String {
    let mut s = String::with_capacity(b.len() * 2);
    for x in b {
        s.push_str(&format!("{:02x}", x));
    }
    s
}

pub fn sha(b: &[u8]) -> String {
    hex(&Sha256::digest(b)[..16])
}

pub fn dig<T: CanonicalSerialize>(x: &T) -> String {
    sha(&ser(x))
}

pub fn h64(b: &[u8]) -> u64 {
    let d = Sha256::digest(b);
    u64::from_le_bytes(d[..8].try_into().unwrap())
}
