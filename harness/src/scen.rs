//! Scheme-generic scenario generation and the honest commit / open / check pipeline,
//! observed through the boundary probes.

use crate::probe::{mon_rng, sponge, MonRng, Sp};
use crate::rt::{attempt, decide, Out};
use crate::schemes::{below, pick_shape, range, Cfg, Kind, Scheme, Shape};
use ark_poly::Polynomial;
use ark_poly_commit::{
    Evaluations, LabeledCommitment, LabeledPolynomial, PCCommitterKey, PolynomialCommitment, QuerySet,
};
use rand_chacha::ChaCha20Rng;
use rand_core::RngCore;
use serde_json::{json, Value};
use std::collections::{BTreeMap, BTreeSet};

pub type PcOf<S> = <S as Scheme>::PC;
pub type FOf<S> = <S as Scheme>::F;
pub type POf<S> = <S as Scheme>::P;
pub type PtOf<S> = <<S as Scheme>::P as Polynomial<<S as Scheme>::F>>::Point;
pub type PpOf<S> = <PcOf<S> as PolynomialCommitment<FOf<S>, POf<S>>>::UniversalParams;
pub type CkOf<S> = <PcOf<S> as PolynomialCommitment<FOf<S>, POf<S>>>::CommitterKey;
pub type VkOf<S> = <PcOf<S> as PolynomialCommitment<FOf<S>, POf<S>>>::VerifierKey;
pub type CommOf<S> = <PcOf<S> as PolynomialCommitment<FOf<S>, POf<S>>>::Commitment;
pub type StateOf<S> = <PcOf<S> as PolynomialCommitment<FOf<S>, POf<S>>>::CommitmentState;
pub type ProofOf<S> = <PcOf<S> as PolynomialCommitment<FOf<S>, POf<S>>>::Proof;
pub type BatchProofOf<S> = <PcOf<S> as PolynomialCommitment<FOf<S>, POf<S>>>::BatchProof;
pub type LPoly<S> = LabeledPolynomial<FOf<S>, POf<S>>;
pub type LComm<S> = LabeledCommitment<CommOf<S>>;

pub struct World<S: Scheme> {
    pub cfg: Cfg,
    pub pp: PpOf<S>,
    pub ck: CkOf<S>,
    pub vk: VkOf<S>,
}

/// setup + trim for an in-domain configuration. Err(outcome) if the library refuses.
pub fn make_world<S: Scheme>(cfg: &Cfg, rng: &mut ChaCha20Rng) -> Result<World<S>, (String, Out)> {
    if let Some(w) = S::custom_world(cfg, rng) {
        return Ok(w);
    }
    let mut pp = attempt(|| PcOf::<S>::setup(cfg.max_degree, cfg.num_vars, rng)).map_err(|o| ("setup".to_string(), o))?;
    // every fifth world is trimmed from universal parameters that were stored and loaded again
    if rng.next_u32() % 5 == 0 {
        pp = reserialize(&pp, rng.next_u32()).map_err(|e| ("deserialize-universal-params".to_string(), Out::Err(e)))?;
    }
    let (ck, vk) = attempt(|| {
        PcOf::<S>::trim(&pp, cfg.supported_degree, cfg.supported_hiding, cfg.enforced.as_deref())
    })
    .map_err(|o| ("trim".to_string(), o))?;
    Ok(World { cfg: cfg.clone(), pp, ck, vk })
}

#[derive(Clone, Debug)]
pub struct Spec {
    pub label: String,
    pub shape: Shape,
    pub deg: usize,
    pub bound: Option<usize>,
    pub hiding: Option<usize>,
}

impl Spec {
    pub fn json(&self) -> Value {
        json!({"label": self.label, "shape": format!("{:?}", self.shape), "deg": self.deg, "bound": self.bound, "hiding": self.hiding})
    }
}

const POLY_LABELS: [&str; 12] = ["p2", "p10", "P1", "a", "zz", "m_3", "q", "p1", "w", "B", "p", "k9"];
const POINT_LABELS: [&str; 8] = ["z", "beta", "alpha", "z10", "z2", "gamma", "Z", "y"];

pub fn distinct_labels(pool: &[&str], n: usize, rng: &mut impl RngCore) -> Vec<String> {
    let mut idx: Vec<usize> = (0..pool.len()).collect();
    for i in (1..idx.len()).rev() {
        let j = below(rng, i + 1);
        idx.swap(i, j);
    }
    idx.into_iter().take(n).map(|i| pool[i].to_string()).collect()
}

/// The sorted, de-duplicated enforced bounds the key actually supports for commitments.
pub fn usable_bounds<S: Scheme>(cfg: &Cfg) -> Vec<usize> {
    if !S::BOUNDS {
        return vec![];
    }
    if S::NAME == "ipa" {
        // IPA supports every bound up to the (rounded) supported degree
        return (0..=S::max_poly_degree(cfg)).collect();
    }
    let mut v = cfg.enforced.clone().unwrap_or_default();
    v.sort();
    v.dedup();
    v
}

/// In-domain (shape, degree, bound, hiding) specifications for `n` polynomials.
pub fn gen_specs<S: Scheme>(cfg: &Cfg, n: usize, rng: &mut impl RngCore) -> Vec<Spec> {
    let labels = distinct_labels(&POLY_LABELS, n, rng);
    let maxd = S::max_poly_degree(cfg);
    let bounds = usable_bounds::<S>(cfg);
    labels
        .into_iter()
        .map(|label| {
            let shape = pick_shape(rng);
            // target degree
            let mut deg = match rng.next_u32() % 6 {
                0 => maxd,
                1 => {
                    // boundary degrees: one below the maximum, powers of two and their neighbours
                    let p = 1usize << below(rng, 7);
                    let c = [maxd.saturating_sub(1), p, p.saturating_sub(1), p + 1, 0, 1];
                    c[below(rng, c.len())].min(maxd)
                }
                _ => below(rng, maxd + 1),
            };
            if S::KIND == Kind::Multivariate && deg == 0 && shape != Shape::Zero && shape != Shape::Const {
                deg = 1;
            }
            let eff_deg = match shape {
                Shape::Zero | Shape::Const => 0,
                _ => deg,
            };
            // a degree bound: any usable bound >= the (maximal possible) degree
            let bound = if S::BOUNDS && rng.next_u32() % 2 == 0 {
                let ok: Vec<usize> = bounds.iter().copied().filter(|b| *b >= eff_deg).collect();
                if ok.is_empty() {
                    None
                } else {
                    // tight, loosest and arbitrary bounds
                    Some(match rng.next_u32() % 5 {
                        0 | 1 => ok[0],
                        2 => ok[ok.len() - 1],
                        _ => ok[below(rng, ok.len())],
                    })
                }
            } else {
                None
            };
            let hiding = if S::HIDING && cfg.supported_hiding >= 1 && rng.next_u32() % 2 == 0 {
                let mut top = cfg.supported_hiding;
                if let Some(b) = bound {
                    // property statement: hiding_bound in [1, min(bound, supported hiding)]
                    top = top.min(b);
                }
                if top >= 1 {
                    Some(match rng.next_u32() % 3 {
                        0 => 1,
                        1 => top,
                        _ => range(rng, 1, top),
                    })
                } else {
                    None
                }
            } else {
                None
            };
            Spec { label, shape, deg, bound, hiding }
        })
        .collect()
}

pub fn make_polys<S: Scheme>(cfg: &Cfg, specs: &[Spec], rng: &mut impl RngCore) -> Vec<LPoly<S>> {
    specs
        .iter()
        .map(|s| LabeledPolynomial::new(s.label.clone(), S::gen_poly(cfg, s.shape, s.deg, rng), s.bound, s.hiding))
        .collect()
}

pub struct Committed<S: Scheme> {
    pub comms: Vec<LComm<S>>,
    pub states: Vec<StateOf<S>>,
    pub rng_bytes: u64,
    pub rng_calls: u64,
}

pub fn commit<S: Scheme>(ck: &CkOf<S>, polys: &[LPoly<S>], seed: u64) -> Result<Committed<S>, Out> {
    let mut r: MonRng<ChaCha20Rng> = mon_rng(seed);
    // API surface: lazy iterators without a length hint for odd seeds; no RNG at all when nothing needs one
    let no_rng = seed % 4 == 2 && !S::ALWAYS_RNG && polys.iter().all(|p| p.hiding_bound().is_none());
    let (comms, states) = if no_rng {
        attempt(|| PcOf::<S>::commit(ck, polys.iter(), None))?
    } else if seed % 2 == 1 {
        attempt(|| PcOf::<S>::commit(ck, polys.iter().filter(|_| true), Some(&mut r)))?
    } else {
        attempt(|| PcOf::<S>::commit(ck, polys.iter(), Some(&mut r)))?
    };
    Ok(Committed { comms, states, rng_bytes: r.bytes, rng_calls: r.calls })
}

pub struct Queries<S: Scheme> {
    pub qs: QuerySet<PtOf<S>>,
    pub evals: Evaluations<PtOf<S>, FOf<S>>,
    /// groups in the BTreeMap order the library uses: (point label, point, polynomial labels sorted)
    pub groups: Vec<(String, PtOf<S>, Vec<String>)>,
}

impl<S: Scheme> Queries<S> {
    pub fn json(&self) -> Value {
        json!(self
            .groups
            .iter()
            .map(|(pl, z, ls)| json!({"point_label": pl, "point": crate::ju::sha(format!("{:?}", z).as_bytes()), "polys": ls}))
            .collect::<Vec<_>>())
    }
}

pub fn groups_of<S: Scheme>(qs: &QuerySet<PtOf<S>>) -> Vec<(String, PtOf<S>, Vec<String>)> {
    let mut m: BTreeMap<String, (PtOf<S>, BTreeSet<String>)> = BTreeMap::new();
    for (l, (pl, z)) in qs {
        m.entry(pl.clone()).or_insert((z.clone(), BTreeSet::new())).1.insert(l.clone());
    }
    m.into_iter().map(|(pl, (z, ls))| (pl, z, ls.into_iter().collect())).collect()
}

/// Hostile query-set shapes: several polynomials per point label, several labels sharing a
/// point value, one polynomial at many points. Never two points under one label.
pub fn gen_queries<S: Scheme>(cfg: &Cfg, polys: &[LPoly<S>], k_labels: usize, rng: &mut impl RngCore) -> Queries<S> {
    let plabels = distinct_labels(&POINT_LABELS, k_labels, rng);
    let mut values: Vec<PtOf<S>> = Vec::new();
    let mut qs = QuerySet::new();
    for (i, pl) in plabels.iter().enumerate() {
        // a fresh point, or the value of an earlier label (shared point value)
        let z = if i > 0 && rng.next_u32() % 3 == 0 { values[below(rng, values.len())].clone() } else { S::gen_point(cfg, rng) };
        values.push(z.clone());
        // subset of polynomials, at least one, often all
        let mode = rng.next_u32() % 4;
        let mut any = false;
        for p in polys {
            let take = match mode {
                0 => true,
                _ => rng.next_u32() % 2 == 0,
            };
            if take {
                qs.insert((p.label().clone(), (pl.clone(), z.clone())));
                any = true;
            }
        }
        if !any {
            let p = &polys[below(rng, polys.len())];
            qs.insert((p.label().clone(), (pl.clone(), z.clone())));
        }
    }
    let mut evals = Evaluations::new();
    for (l, (_, z)) in &qs {
        let p = polys.iter().find(|p| p.label() == l).unwrap();
        evals.insert((l.clone(), z.clone()), p.evaluate(z));
    }
    let groups = groups_of::<S>(&qs);
    Queries { qs, evals, groups }
}

pub fn permutation(n: usize, rng: &mut impl RngCore) -> Vec<usize> {
    let mut p: Vec<usize> = (0..n).collect();
    for i in (1..n).rev() {
        let j = below(rng, i + 1);
        p.swap(i, j);
    }
    p
}

pub fn permuted<T: Clone>(v: &[T], perm: &[usize]) -> Vec<T> {
    perm.iter().map(|&i| v[i].clone()).collect()
}

/// A complete honest scenario: world, polynomials, commitments.
pub struct Tx<S: Scheme> {
    pub w: World<S>,
    pub specs: Vec<Spec>,
    pub polys: Vec<LPoly<S>>,
    pub c: Committed<S>,
    pub pre: Vec<u8>,
    pub commit_seed: u64,
}

pub enum TxErr {
    /// an in-domain request was refused or aborted: (stage, outcome, descriptor)
    Refused(String, Out, Value),
}

pub fn gen_tx<S: Scheme>(rng: &mut ChaCha20Rng, thorough: bool, max_polys: usize) -> Result<Tx<S>, TxErr> {
    let cfg = S::gen_cfg(rng, thorough);
    gen_tx_with::<S>(cfg, rng, max_polys)
}

/// A copy of `x` obtained through canonical serialization; `mode` selects compression and validation.
pub fn reserialize<T: ark_serialize::CanonicalSerialize + ark_serialize::CanonicalDeserialize>(x: &T, mode: u32) -> Result<T, String> {
    use ark_serialize::{Compress, Validate};
    let cm = if mode & 1 == 0 { Compress::Yes } else { Compress::No };
    let va = if mode & 2 == 0 { Validate::Yes } else { Validate::No };
    crate::rt::guard(|| {
        let mut b = Vec::new();
        x.serialize_with_mode(&mut b, cm).map_err(|e| format!("serialize: {:?}", e))?;
        T::deserialize_with_mode(&b[..], cm, va).map_err(|e| format!("deserialize: {:?}", e))
    })
    .unwrap_or_else(|p| Err(format!("panic: {}", p)))
}

pub fn gen_tx_with<S: Scheme>(cfg: Cfg, rng: &mut ChaCha20Rng, max_polys: usize) -> Result<Tx<S>, TxErr> {
    let w = make_world::<S>(&cfg, rng).map_err(|(st, o)| TxErr::Refused(st, o, cfg.json()))?;
    let n = range(rng, 1, max_polys.max(1));
    let specs = gen_specs::<S>(&cfg, n, rng);
    let polys = make_polys::<S>(&cfg, &specs, rng);
    let commit_seed = rng.next_u64();
    let c = match commit::<S>(&w.ck, &polys, commit_seed) {
        Ok(c) => c,
        Err(o) => {
            // localise: which single polynomial is refused on its own?
            let mut culprit = None;
            for (i, p) in polys.iter().enumerate() {
                if commit::<S>(&w.ck, std::slice::from_ref(p), commit_seed).is_err() {
                    culprit = Some(i);
                    break;
                }
            }
            let stage = match culprit {
                Some(i) => format!("commit[{:?}{}{}]", specs[i].shape, if specs[i].bound.is_some() { ",bound" } else { "" }, if specs[i].hiding.is_some() { ",hiding" } else { "" }),
                None => "commit[list-only]".to_string(),
            };
            return Err(TxErr::Refused(stage, o, json!({"cfg": cfg.json(), "specs": specs.iter().map(|s| s.json()).collect::<Vec<_>>(),
                "degrees": polys.iter().map(|p| p.degree()).collect::<Vec<_>>(), "ck_supported": w.ck.supported_degree(), "culprit": culprit})));
        }
    };
    let npre = below(rng, 40);
    let mut pre = vec![0u8; npre];
    rng.fill_bytes(&mut pre);
    // API surface: in a quarter of the scenarios the keys, and in another quarter the commitments, are not the
    // objects setup / trim / commit returned but copies that went through canonical serialization (all four modes)
    let (mut w, mut c) = (w, c);
    match rng.next_u32() % 4 {
        0 => {
            let mode = rng.next_u32();
            match (reserialize(&w.ck, mode), reserialize(&w.vk, mode)) {
                (Ok(ck), Ok(vk)) => {
                    w.ck = ck;
                    w.vk = vk;
                }
                (Err(e), _) | (_, Err(e)) => return Err(TxErr::Refused("deserialize-key".into(), Out::Err(e), cfg.json())),
            }
        }
        1 => {
            let mode = rng.next_u32();
            for lc in c.comms.iter_mut() {
                match reserialize(lc.commitment(), mode) {
                    Ok(cm) => *lc = LabeledCommitment::new(lc.label().clone(), cm, lc.degree_bound()),
                    Err(e) => return Err(TxErr::Refused("deserialize-commitment".into(), Out::Err(e), cfg.json())),
                }
            }
        }
        _ => {}
    }
    Ok(Tx { w, specs, polys, c, pre, commit_seed })
}

impl<S: Scheme> Tx<S> {
    pub fn json(&self) -> Value {
        json!({"cfg": self.w.cfg.json(), "polys": self.specs.iter().zip(&self.polys).map(|(s, p)| {
            let mut j = s.json(); j["actual_degree"] = json!(p.degree()); j }).collect::<Vec<_>>(), "pre_len": self.pre.len()})
    }
    pub fn sponge(&self) -> Sp<FOf<S>> {
        sponge::<FOf<S>>(&self.pre)
    }
    pub fn idx_of(&self, label: &str) -> usize {
        self.polys.iter().position(|p| p.label() == label).unwrap()
    }
}

/// Library batch_open with the prover-side lists in the order given by `perm`.
pub fn batch_open<S: Scheme>(
    tx: &Tx<S>,
    perm: &[usize],
    qs: &QuerySet<PtOf<S>>,
    sp: &mut Sp<FOf<S>>,
    rng_seed: u64,
) -> Result<BatchProofOf<S>, Out> {
    let polys = permuted(&tx.polys, perm);
    let comms = permuted(&tx.c.comms, perm);
    let states = permuted(&tx.c.states, perm);
    let mut r = mon_rng(rng_seed);
    if rng_seed % 2 == 1 {
        // the API takes `impl IntoIterator`: half of the calls hand over lazy iterators without a length hint
        return attempt(|| PcOf::<S>::batch_open(&tx.w.ck, polys.iter().filter(|_| true), comms.iter().filter(|_| true), qs, sp, states.iter().filter(|_| true), Some(&mut r)));
    }
    attempt(|| PcOf::<S>::batch_open(&tx.w.ck, polys.iter(), comms.iter(), qs, sp, states.iter(), Some(&mut r)))
}

pub fn batch_check<S: Scheme>(
    vk: &VkOf<S>,
    comms: &[LComm<S>],
    qs: &QuerySet<PtOf<S>>,
    evals: &Evaluations<PtOf<S>, FOf<S>>,
    proof: &BatchProofOf<S>,
    sp: &mut Sp<FOf<S>>,
    rng_seed: u64,
) -> Out {
    let mut r = mon_rng(rng_seed);
    if rng_seed % 2 == 1 {
        return decide(|| PcOf::<S>::batch_check(vk, comms.iter().filter(|_| true), qs, evals, proof, sp, &mut r));
    }
    decide(|| PcOf::<S>::batch_check(vk, comms.iter(), qs, evals, proof, sp, &mut r))
}

/// Library single-point open over the polynomials `idx` (same order on both sides).
pub fn open<S: Scheme>(tx: &Tx<S>, idx: &[usize], z: &PtOf<S>, sp: &mut Sp<FOf<S>>, rng_seed: u64) -> Result<ProofOf<S>, Out> {
    let polys: Vec<&LPoly<S>> = idx.iter().map(|&i| &tx.polys[i]).collect();
    let comms: Vec<&LComm<S>> = idx.iter().map(|&i| &tx.c.comms[i]).collect();
    let states: Vec<&StateOf<S>> = idx.iter().map(|&i| &tx.c.states[i]).collect();
    let mut r = mon_rng(rng_seed);
    if rng_seed % 2 == 1 {
        return attempt(|| PcOf::<S>::open(&tx.w.ck, polys.into_iter().filter(|_| true), comms.into_iter().filter(|_| true), z, sp, states.into_iter().filter(|_| true), Some(&mut r)));
    }
    attempt(|| PcOf::<S>::open(&tx.w.ck, polys, comms, z, sp, states, Some(&mut r)))
}

pub fn check<S: Scheme>(
    vk: &VkOf<S>,
    comms: &[&LComm<S>],
    z: &PtOf<S>,
    values: &[FOf<S>],
    proof: &ProofOf<S>,
    sp: &mut Sp<FOf<S>>,
    rng_seed: u64,
) -> Out {
    let mut r = mon_rng(rng_seed);
    if rng_seed % 2 == 1 {
        return decide(|| PcOf::<S>::check(vk, comms.iter().copied().filter(|_| true), z, values.iter().copied().filter(|_| true), proof, sp, Some(&mut r)));
    }
    if rng_seed % 4 == 2 {
        // single-point verification needs no randomness
        return decide(|| PcOf::<S>::check(vk, comms.iter().copied(), z, values.iter().copied(), proof, sp, None));
    }
    decide(|| PcOf::<S>::check(vk, comms.iter().copied(), z, values.iter().copied(), proof, sp, Some(&mut r)))
}
