//! pcmon: runtime monitors for ark-poly-commit (see /verif/DESIGN.md).
#![allow(clippy::too_many_arguments, clippy::type_complexity)]
#![allow(unused_imports, dead_code)]

mod ipa_ref;
mod ju;
mod mirror;
mod oracle;
mod probe;
mod props;
mod rt;
mod scen;
mod schemes;

use rt::{Ctx, Tier};

fn arg(args: &[String], key: &str) -> Option<String> {
    args.iter().position(|a| a == key).and_then(|i| args.get(i + 1).cloned())
}

fn main() {
    let args: Vec<String> = std::env::args().collect();
    if args.len() < 2 || args[1] != "run" {
        eprintln!("usage: pcmon run --prop Cxx --tier quick|thorough --seed N --shard i/n --out FILE [--only scheme:idx] [--journal FILE] [--threads N]");
        std::process::exit(64);
    }
    let prop = arg(&args, "--prop").expect("--prop");
    let tier = match arg(&args, "--tier").as_deref() {
        Some("thorough") => Tier::Thorough,
        _ => Tier::Quick,
    };
    let seed: u64 = arg(&args, "--seed").and_then(|s| s.parse().ok()).unwrap_or(0);
    let (shard, nshards) = match arg(&args, "--shard") {
        Some(s) => {
            let mut it = s.split('/');
            (it.next().unwrap().parse().unwrap(), it.next().unwrap().parse().unwrap())
        }
        None => (0u64, 1u64),
    };
    let only = arg(&args, "--only").map(|s| {
        let p = s.rfind(':').expect("--only scheme:idx");
        (s[..p].to_string(), s[p + 1..].parse::<u64>().unwrap())
    });
    let out = arg(&args, "--out").expect("--out");
    let journal = arg(&args, "--journal");
    if std::env::var("PCMON_LOUD_PANICS").is_err() {
        rt::silence_panics();
    }
    let mut ctx = Ctx::new(&prop, tier, seed, shard, nshards, only, journal.as_deref());
    let known = props::dispatch(&mut ctx);
    if !known {
        eprintln!("unknown property {}", prop);
        std::process::exit(64);
    }
    let s = ctx.summary();
    std::fs::write(&out, serde_json::to_vec(&s).unwrap()).expect("write summary");
}
