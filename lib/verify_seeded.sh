#!/bin/bash
# usage: verify_seeded.sh <worktree> <id-lower>   (confirms: suite passes with patch, demo fails with patch, demo passes without)
set -u
WT=$1; ID=$2
cd $WT || exit 2
LOG=$WT/deliver/verify.log; : > $LOG
git checkout -q -- poly-commit/src
git apply deliver/patch.diff || { echo "PATCH-APPLY-FAILED" >> $LOG; exit 1; }
echo "== with patch: lib tests" >> $LOG
CARGO_NET_OFFLINE=true cargo test -p ark-poly-commit --offline --lib 2>&1 | grep -E "^test result|FAILED|failed" | head -5 >> $LOG
echo "== with patch: demo" >> $LOG
CARGO_NET_OFFLINE=true cargo test -p ark-poly-commit --offline --test demo_$ID 2>&1 | grep -E "^test result|^test .* (ok|FAILED)" | head -12 >> $LOG
git checkout -q -- poly-commit/src
echo "== without patch: demo" >> $LOG
CARGO_NET_OFFLINE=true cargo test -p ark-poly-commit --offline --test demo_$ID 2>&1 | grep -E "^test result|^test .* (ok|FAILED)" | head -12 >> $LOG
echo "== done" >> $LOG
