#!/bin/bash
# usage: store_seeded.sh <Cxx> [name]  -- copy an agent's deliverables into /verif/seeded/<name>
ID=$1; NAME=${2:-$1}; L=$(echo $ID | tr A-Z a-z)
mkdir -p /verif/seeded/$NAME
cp /tmp/wt-$ID/deliver/patch.diff /verif/seeded/$NAME/patch.diff
cp /tmp/wt-$ID/deliver/demo_$L.rs /verif/seeded/$NAME/
cp /tmp/wt-$ID/deliver/meta.json /verif/seeded/$NAME/meta.agent.json
[ -f /tmp/wt-$ID/deliver/verify.log ] && cp /tmp/wt-$ID/deliver/verify.log /verif/seeded/$NAME/verify.log
ls /verif/seeded/$NAME
