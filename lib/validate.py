#!/usr/bin/env python3-vt
"""Validate MANIFEST.json and every evidence file against the given schemas."""
import glob, json, sys
import jsonschema
ok = True
def chk(path, schema):
    global ok
    try:
        jsonschema.validate(json.load(open(path)), json.load(open(schema)))
        print("ok  ", path)
    except Exception as e:
        ok = False
        print("FAIL", path, str(e)[:400])
chk("/verif/MANIFEST.json", "/root/.vp/MANIFEST.schema.json")
for p in sorted(glob.glob("/verif/evidence/*.json")):
    chk(p, "/root/.vp/EVIDENCE.schema.json")
sys.exit(0 if ok else 1)
