#!/bin/bash
# usage: mutant_batch.sh "<seedname>:<prop>[:tier]" ...  -- sequential mutant runs, results appended to /tmp/mutant-results.log
for spec in "$@"; do
  IFS=: read NAME PROP TIER <<< "$spec"
  TIER=${TIER:-quick}
  echo "=== $NAME vs $PROP $TIER  $(date +%H:%M:%S)" >> /tmp/mutant-results.log
  /verif/lib/mutant_run.sh /verif/seeded/$NAME/patch.diff $PROP $TIER >> /tmp/mutant-results.log 2>&1
done
echo "=== batch done $(date +%H:%M:%S)" >> /tmp/mutant-results.log
