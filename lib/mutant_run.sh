#!/bin/bash
# usage: mutant_run.sh <patch.diff> <prop> [tier] -- runs a check against a scratch copy of /repo with the patch applied.
# The scratch copy lives under /tmp/mutant-scratch and is removed afterwards (its build cache is kept in /tmp/pcmon-harness).
set -u
PATCH=$(readlink -f $1); PROP=$2; TIER=${3:-quick}
SCR=/tmp/mutant-scratch/repo
rm -rf $SCR; mkdir -p /tmp/mutant-scratch
git -C /repo worktree prune
git -C /repo worktree add -q --detach $SCR HEAD || exit 2
( cd $SCR && ( git apply $PATCH 2>/dev/null || git apply --3way $PATCH 2>/dev/null || patch -p1 --fuzz=3 -s < $PATCH ) ) || { echo "PATCH-APPLY-FAILED"; git -C /repo worktree remove --force $SCR; exit 2; }
cd /verif
PCMON_REPO=$SCR PCMON_EVIDENCE_DIR=/tmp/mutant-scratch/evidence ./check $PROP $TIER 2>&1 | grep -E "^(VIOLATION|KNOWN-FINDING|INCONCLUSIVE)|oracle evaluations|signature" | cut -c1-400
RC=${PIPESTATUS[0]}
echo "EXIT=$RC"
git -C /repo worktree remove --force $SCR
