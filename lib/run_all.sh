#!/bin/bash
# usage: run_all.sh quick|thorough [seed]  -- runs every claimed check sequentially, prints one status line each
TIER=${1:-quick}; export VERIF_SEED=${2:-0}
cd /verif
for p in $(python3 -c "import json;print(' '.join(c['property_id'] for c in json.load(open('MANIFEST.json'))['checks']))"); do
  S=$(date +%s)
  OUT=$(./check $p $TIER 2>&1); RC=$?
  E=$(( $(date +%s) - S ))
  echo "$p tier=$TIER seed=$VERIF_SEED rc=$RC ${E}s :: $(echo "$OUT" | grep -E 'oracle evaluations' | sed 's/.*: //')"
  echo "$OUT" | grep -E "^(VIOLATION|INCONCLUSIVE)" | head -5
  echo "$OUT" | grep -cE "^KNOWN-FINDING" | sed 's/^/   known-finding lines: /'
done
