#!/usr/bin/env python3
"""Write /verif/seeded/<id>/meta.json from the agent's meta, the local re-verification log and the
table of mutant runs (/verif/seeded/RESULTS.json: {seed_id: {check: {"exit": n, "signatures": [...]}}})."""
import json, os, re, glob
ROOT = "/verif/seeded"
results = json.load(open(os.path.join(ROOT, "RESULTS.json"))) if os.path.exists(os.path.join(ROOT, "RESULTS.json")) else {}
for d in sorted(glob.glob(ROOT + "/C*")):
    sid = os.path.basename(d)
    agent = {}
    p = os.path.join(d, "meta.agent.json")
    if os.path.exists(p):
        try:
            agent = json.load(open(p))
        except Exception:
            agent = {"raw": open(p).read()[:2000]}
    ver = {}
    vp = os.path.join(d, "verify.log")
    if os.path.exists(vp):
        t = open(vp).read()
        def grab(sec):
            m = re.search(re.escape(sec) + r"\n((?:.*\n)*?)(?===|\Z)", t)
            return [l for l in (m.group(1).splitlines() if m else []) if l.startswith("test result")]
        ver = {"suite_with_change": grab("== with patch: lib tests"), "demo_with_change": grab("== with patch: demo"), "demo_without_change": grab("== without patch: demo")}
    meta = {
        "property": agent.get("property", sid[:3]),
        "seed_id": sid,
        "summary": agent.get("summary"),
        "needs_to_manifest": agent.get("needs") or agent.get("needs_to_manifest"),
        "files_changed": agent.get("files") or agent.get("files_changed"),
        "written_by": "independent sub-agent given only the property text and a scratch worktree",
        "reverified_here": ver,
        "how_reverified": "lib/verify_seeded.sh <worktree> <id>: git apply patch.diff; cargo test -p ark-poly-commit --offline --lib; cargo test --test demo_<id>; revert; cargo test --test demo_<id>",
        "checks_run_against_it": results.get(sid, {}),
        "how_checks_were_run": "lib/mutant_run.sh seeded/<id>/patch.diff <Cxx> quick (scratch worktree of /repo HEAD with the patch applied, PCMON_REPO pointing at it)",
    }
    json.dump(meta, open(os.path.join(d, "meta.json"), "w"), indent=1)
    print(sid, "ok", bool(ver), list(results.get(sid, {}).keys()))
