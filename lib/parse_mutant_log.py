#!/usr/bin/env python3
"""Merge /tmp/mutant-results.log (or given logs) into /verif/seeded/RESULTS.json."""
import json, os, re, sys
out_path = "/verif/seeded/RESULTS.json"
res = json.load(open(out_path)) if os.path.exists(out_path) else {}
for path in sys.argv[1:] or ["/tmp/mutant-results.log"]:
    cur = None
    for line in open(path):
        m = re.match(r"=== (\S+) vs (\S+) (\S+)", line)
        if m:
            cur = (m.group(1), m.group(2), m.group(3))
            res.setdefault(cur[0], {})[cur[1]] = {"tier": cur[2], "exit": None, "new_violation_signatures": [], "summary": None}
            continue
        if cur is None:
            continue
        e = res[cur[0]][cur[1]]
        m = re.match(r"\s+signature: (\S+) \((\d+) occurrences\)", line)
        if m:
            e["new_violation_signatures"].append({"signature": m.group(1), "occurrences": int(m.group(2))})
        m = re.match(r"(C\d+ \w+ seed=\d+: .*)", line)
        if m:
            e["summary"] = m.group(1).strip()
        m = re.match(r"EXIT=(\d+)", line)
        if m:
            e["exit"] = int(m.group(1))
        if "PATCH-APPLY-FAILED" in line:
            e["exit"] = "patch-apply-failed"
json.dump(res, open(out_path, "w"), indent=1, sort_keys=True)
for k in sorted(res):
    print(k, {c: (v["exit"], len(v["new_violation_signatures"])) for c, v in res[k].items()})
