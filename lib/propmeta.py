"""Per-property metadata shared by the driver (./check) and the MANIFEST generator."""

TRUST = [
    "arkworks algebra (fields, curves, pairings, FFT, MSM), Poseidon sponge and Merkle tree crates are trusted",
    "harness oracles are independent re-computations written from the schemes' definitions; probabilistic oracles err with probability <= 2^-120",
    "verdicts are about the executions produced: held on K cases of the listed classes, never 'verified'",
]

PROPS = {
    "C16": {
        "title": "Public algebraic helpers satisfy their defining identities",
        "rule": "seeded random cases: (lc-arith) op sequences of length 1..12 over += -= *= with (coeff,lc), lc, constants on LinearCombination, value compared after every op with a shadow value under a random assignment; (evaluate-query-set) random labelled univariate / multilinear polynomial sets and query sets with shared labels and point values, compared with independent Horner / hypercube evaluation; (succinct-check-poly) k=0..10 challenges incl. 0/1, evaluate(z) vs Horner(compute_coeffs) vs the product definition. Distinct = distinct (scheme, class, descriptor) SHA-256 hashes; every case is non-trivial (the oracle has no precondition).",
        "required_classes": ["lc-arith", "evaluate-query-set", "succinct-check-poly"],
        "technique": "runtime monitoring: shadow-value oracle over random operation sequences + reference evaluators",
        "level_text": "Randomised differential monitoring of the public helper API against independent reference computations; 10^5 (quick) to 3*10^6 (thorough) oracle evaluations per run. Adequate because the helpers are pure functions with tiny state, so diverse random inputs reach every branch (each operator, One/label terms, zero/one coefficients, k=0..10).",
        "design_ref": "5 (C16)",
        "assumptions": TRUST,
    },
}

GEN = "seeded generator over scheme configurations (max/supported degree, enforced bound lists, hiding support, num_vars), polynomial shapes (full, random, zero, constant, low-order zeros, top monomial, sparse / mixed monomials), in-domain (degree bound, hiding bound) pairs, hostile query sets (several polynomials per point label, labels sharing a point value, one polynomial at many points, label orders differing from insertion order) and list permutations; 11 schemes (Marlin, Sonic, IPA, PST13, Hyrax, univariate/multilinear Ligero, Brakedown through the trait; KZG10, multilinear PST, streaming KZG directly; thorough adds BLS12-377 instances). "
DIST = " Distinct = distinct SHA-256 hashes of (scheme, class, full case descriptor); a case is non-trivial when its oracle preconditions held (skipped cases are reported separately and never counted)."

PROPS.update({
    "C01": {
        "title": "Completeness",
        "rule": GEN + "Oracle: every call of the honest pipeline (setup, trim, commit, batch_open, open) succeeds and batch_check / check (two verifier seeds) accept the true values; prover and verifier start from clones of one pre-seeded recording sponge." + DIST,
        "required_classes": ["batch-accept", "single-accept"],
        "technique": "runtime monitoring: generated hostile honest workloads, outcome oracle at the API boundary",
        "level_text": "Exploration of the honest configuration space with an accept-oracle at the client boundary; library panics are contained per call and classified. Thousands of transcripts per scheme in the thorough tier, covering every (bound, hiding, shape, query-shape, permutation) feature counted in evidence.observed_counters.",
        "design_ref": "5 (C01)",
        "assumptions": TRUST,
    },
    "C02": {
        "title": "Evaluation binding (honest proof, false claim)",
        "rule": GEN + "For each accepting transcript: value+delta (delta in {+1,-1,-value,random}) at several positions, the point of one label replaced, one commitment replaced by an honest commitment to another polynomial; in batch_check and single check (and KZG10::check/batch_check, MultilinearPC::check, streaming verify/verify_multi_points). Oracle: outcome is reject, Err or panic; precondition: the perturbed claim is false as recomputed from the polynomials (else skipped)." + DIST,
        "required_classes": ["value-perturbed", "point-replaced", "commitment-replaced"],
        "technique": "runtime monitoring: single-fault statement perturbation of accepting transcripts, reject-oracle",
        "level_text": "Fault enumeration over statement components of generated accepting transcripts (about 10 perturbations per transcript) with a truth-recomputing precondition so that correct acceptances are never flagged.",
        "design_ref": "5 (C02)",
        "assumptions": TRUST,
    },
    "C05": {
        "title": "Batch verification equals conjunction of single verifications",
        "rule": GEN + "Query sets with >=2 point labels and >=2 polynomials. Per transcript: all-true batch under 4 verifier seeds; random subsets of falsified claims; plain cancelling error pairs (delta,-delta) within one point and across points; proof list truncated / emptied / extended / permuted. Oracles: batch decision == AND of per-point `check` decisions run in group order on a clone of the same sponge (streaming: == AND of single-point verifications with honest single proofs); decision independent of verifier seed; false and cancelling claims and missing/surplus proofs not accepted." + DIST,
        "required_classes": ["all-true-accepted", "batch-vs-single-mismatch", "false-claim-accepted", "cancelling-errors-accepted", "proof-list-truncated", "proof-list-extended", "verifier-seed-invariance"],
        "technique": "runtime monitoring: differential oracle batch_check vs sequential check on one transcript + reject-oracle on cancelling/shape faults",
        "level_text": "Differential monitoring of two library decision procedures on identical claims, plus reject-oracles for challenge-oblivious cancelling errors and proof-list shape faults; challenge-aware compensating errors are excluded because correct code accepts them (values are not absorbed into the transcript).",
        "design_ref": "5 (C05)",
        "assumptions": TRUST,
    },
})

ALL_IDS = ["C%02d" % i for i in range(1, 20)]
