"""Per-property metadata shared by the driver (./check) and the MANIFEST generator."""

TRUST = [
    "arkworks algebra (fields, curves, pairings, FFT, MSM), Poseidon sponge and Merkle tree crates are trusted",
    "harness oracles are independent re-computations written from the schemes' definitions; probabilistic oracles err with probability <= 2^-120",
    "verdicts are about the executions produced: held on K cases of the listed classes, never 'verified'",
]

PROPS = {
    "C16": {
        "title": "Public algebraic helpers satisfy their defining identities",
        "rule": "seeded random cases: (lc-arith) op sequences of length 1..12 over += -= *= with (coeff,lc), lc, constants on LinearCombination, value compared after every op with a shadow value under a random assignment, one operand in thirty with 20..400 terms (repeated labels, constants), operands built by push on an empty combination, by `new` from LCTerm values or by `new` from label strings, one operand in ten a copy of the accumulator itself; (evaluate-query-set) random labelled univariate / multilinear polynomial sets and query sets with shared labels and point values, compared with independent Horner / hypercube evaluation; (succinct-check-poly) k=0..10 challenges incl. 0/1, evaluate(z) vs Horner(compute_coeffs) vs the product definition. Distinct = distinct (scheme, class, descriptor) SHA-256 hashes; every case is non-trivial (the oracle has no precondition).",
        "required_classes": ["lc-arith", "evaluate-query-set", "succinct-check-poly"],
        "technique": "runtime monitoring: shadow-value oracle over random operation sequences + reference evaluators",
        "level_text": "Randomised differential monitoring of the public helper API against independent reference computations; 10^5 (quick) to 3*10^6 (thorough) oracle evaluations per run. Adequate because the helpers are pure functions with tiny state, so diverse random inputs reach every branch (each operator, One/label terms, zero/one coefficients, k=0..10).",
        "design_ref": "5 (C16)",
        "assumptions": TRUST,
    },
}

GEN = "seeded generator over scheme configurations (max/supported degree, enforced bound lists, hiding support, num_vars), polynomial shapes (full, random, zero, constant, low-order zeros, top monomial, sparse / mixed monomials), in-domain (degree bound, hiding bound) pairs with tight (bound == degree, including bound 0 for constants), loosest and arbitrary bounds and degrees at the maximum / one below / around powers of two, univariate Ligero sizes on both sides of the 2-row / 4-row matrix boundary, hostile query sets (several polynomials per point label, labels sharing a point value, one polynomial at many points, label orders differing from insertion order) and list permutations; 11 schemes (Marlin, Sonic, IPA, PST13, Hyrax, univariate/multilinear Ligero, Brakedown through the trait; KZG10, multilinear PST, streaming KZG directly; thorough adds BLS12-377 instances). API surface: every fifth world is trimmed from universal parameters that were serialized and loaded again; in a quarter of the scenarios the committer / verifier keys, in another quarter the commitments, are copies that went through canonical serialization (all four compress / validate modes); the library calls are made with slices / plain iterators, with lazy iterators without a length hint (every second call) and, where nothing needs randomness, without an RNG (every fourth call). In C01, C02, C03, C05, C06, C08, C10, C11, C12 and C18 half of the linear-code worlds come from the public parameter constructors (security level 64 / 100 / 128, inverse rate 2..8 including non-powers of two, well-formedness check on / off) instead of setup / trim; hiding support is drawn up to the supported and the maximum degree. Workloads named `<scheme>/large` repeat the same cases on configurations beyond a thousand coefficients (univariate 1023..2100 / thorough ..4200, 10 or 12 variables, PST13 4 variables of degree 11). "
DIST = " Distinct = distinct SHA-256 hashes of (scheme, class, full case descriptor); a case is non-trivial when its oracle preconditions held (skipped cases are reported separately and never counted)."

PROPS.update({
    "C01": {
        "title": "Completeness",
        "rule": GEN + "Oracle: every call of the honest pipeline (setup, trim, commit, batch_open, open) succeeds and batch_check / check (two verifier seeds) accept the true values; prover and verifier start from clones of one pre-seeded recording sponge. In this check one point coordinate in eight is a special field element (0, 1, -1, 2). Directed search (IPA): for a fixed degree-3 instance the harness hashes 24 million (thorough 80 million) candidate points per case itself to find the point whose first Fiat-Shamir round challenge needs the most digests (rejection sampling; 8..9 digests reached) and requires the honest opening there to be accepted." + DIST,
        "required_classes": ["batch-accept", "single-accept", "deep-challenge-retry"],
        "technique": "runtime monitoring: generated hostile honest workloads, outcome oracle at the API boundary",
        "level_text": "Exploration of the honest configuration space with an accept-oracle at the client boundary; library panics are contained per call and classified. Thousands of transcripts per scheme in the thorough tier, covering every (bound, hiding, shape, query-shape, permutation) feature counted in evidence.observed_counters.",
        "design_ref": "5 (C01)",
        "assumptions": TRUST,
    },
    "C02": {
        "title": "Evaluation binding (honest proof, false claim)",
        "rule": GEN + "For each accepting transcript: value+delta (delta in {+1,-1,-value,random}) at several positions, the value replaced by the value claimed for the neighbouring polynomial of the same point (both directions), the point of one label replaced, one commitment replaced by an honest commitment to another polynomial; in batch_check and single check (and KZG10::check/batch_check, MultilinearPC::check, streaming verify/verify_multi_points). Oracle: outcome is reject, Err or panic; precondition: the perturbed claim is false as recomputed from the polynomials (else skipped)." + DIST,
        "required_classes": ["value-perturbed", "point-replaced", "commitment-replaced"],
        "technique": "runtime monitoring: single-fault statement perturbation of accepting transcripts, reject-oracle",
        "level_text": "Fault enumeration over statement components of generated accepting transcripts (about 10 perturbations per transcript) with a truth-recomputing precondition so that correct acceptances are never flagged.",
        "design_ref": "5 (C02)",
        "assumptions": TRUST,
    },
    "C05": {
        "title": "Batch verification equals conjunction of single verifications",
        "rule": GEN + "Query sets with >=2 point labels and >=2 polynomials. Per transcript: all-true batch under 4 verifier seeds; random subsets of falsified claims; plain cancelling error pairs (delta,-delta) within one point and across points; challenge-aware error pairs (d, -d*xi_1/xi_2) across two point labels (xi decoded from the recorded verifier sponge); all claims true with the blinding evaluation of one KZG-style proof moved onto another proof (sum unchanged); proof list truncated / emptied / extended / permuted; PST13: first proof shortened by its (identity) last witness together with a later proof forged as (0,..,0,(v* G - C)/z_last) under the public challenges. Oracles: batch decision == AND of per-point `check` decisions run in group order on a clone of the same sponge (streaming: == AND of single-point verifications with honest single proofs); decision independent of verifier seed; false and cancelling claims and missing/surplus proofs not accepted." + DIST,
        "required_classes": ["all-true-accepted", "batch-vs-single-mismatch", "false-claim-accepted", "cancelling-errors-accepted", "proof-list-truncated", "proof-list-extended", "verifier-seed-invariance", "blinding-moved-between-proofs", "short-first-proof-forgery"],
        "technique": "runtime monitoring: differential oracle batch_check vs sequential check on one transcript + reject-oracle on cancelling/shape faults",
        "level_text": "Differential monitoring of two library decision procedures on identical claims, plus reject-oracles for challenge-oblivious cancelling errors and proof-list shape faults; challenge-aware compensating errors are excluded because correct code accepts them (values are not absorbed into the transcript).",
        "design_ref": "5 (C05)",
        "assumptions": TRUST,
    },
})

PROPS.update({
    "C04": {
        "title": "Degree bounds",
        "rule": "Marlin, Sonic, IPA (thorough: also BLS12-377) with configurations holding >= 2 distinct enforced bounds (unsorted, duplicated). Refusal side: degree = bound+1, bound not in the enforced set, bound beyond the key, degree beyond the key, and `open` with an over-degree polynomial on valid states must yield Err/panic. Verifier side (with a positive control on the same transcript): commitment made under d' presented as d with the honest proof and with a proof from the library prover run under the presented bound; label removed; shifted part dropped (label kept / removed), swapped between two polynomials, borrowed; cross-key: degree d+1 polynomial committed under bound d+1 with a second key trimmed from the same SRS and presented as bound d to the first verifier key; a polynomial of degree above d committed WITHOUT bound and honestly opened as unbounded, presented under bound d with the identity element or a borrowed honest degree-bound part (Marlin, IPA), through check and through check_combinations of the single-term equation (there also with the bound label alone). Preconditions: p(z) != 0, z != 0, non-vacuous shift; cases failing them are skipped." + DIST,
        "required_classes": ["degree-exceeds-bound", "bound-beyond-key", "degree-beyond-key", "positive-control", "mislabelled-bound", "cross-key-mislabel", "unbounded-transcript-under-bound"],
        "technique": "runtime monitoring: boundary-magnitude refusal oracle + relabelling faults on accepting transcripts with positive control",
        "level_text": "Fault enumeration around every degree-bound boundary (deg=d+1, d not in B, d>key) and over every way of presenting a bounded commitment under another bound, each with a positive control so rejections are not vacuous.",
        "design_ref": "5 (C04)",
        "assumptions": TRUST + ["bounds are enforced through an identity at the evaluation point: points with p(z)=0 or z=0 are excluded (admissible query sampler assumption of the schemes)"],
    },
    "C06": {
        "title": "Linear-combination openings",
        "rule": GEN + "LC sets: 1..4 combinations of 1..6 terms (one in twelve with 20..90 terms), combination labels that coincide with the label of their own single polynomial or of an unrelated polynomial, coefficients in {0,1,-1,random, short scalars of every bit length up to 128}, repeated labels, LCTerm::One terms, 1..3 point labels some sharing a point value, several LCs per point. Oracles: honest open_combinations/check_combinations accepts the true values (recomputed from the polynomials); a changed claimed value, two claimed values changed by (+d, -d) or exchanged, verifier-side coefficient (on a non-vanishing evaluation), constant, or transmitted evaluation (plain, and shifted with all LC claims recomputed consistently) is not accepted; a combination mixing a degree-bounded polynomial with other terms is refused by open_combinations." + DIST,
        "required_classes": ["honest-lc-accepted", "lc-value-perturbed", "lc-coefficient-perturbed", "lc-constant-perturbed", "degree-bound-mix-refused", "evals-perturbed", "lc-values-cancelling-pair"],
        "technique": "runtime monitoring: generated LC workloads, accept-oracle + single-fault reject-oracle with truth recomputation",
        "level_text": "Exploration of LC shapes the suite never builds (constants, zero/negative coefficients, repeated labels, shared point values) through both the Marlin-style overrides and the trait default, with fault injection on every verifier-visible LC component.",
        "design_ref": "5 (C06)",
        "assumptions": TRUST,
    },
    "C08": {
        "title": "Commitments are the key-defined linear map",
        "rule": "Per scheme, seeded polynomials p, q of all shapes, scalars a, b in {0,1,-1,random}, with/without degree bound and hiding: commitment == naive term-by-term scalar-multiplication sum over the PUBLIC PARAMETERS (plain window 0.., shifted window (max-d).., PST13 by term lookup, multilinear by hypercube index, Hyrax per row in column-major layout minus r_i*h from the mirrored state, streaming through the H2 hook) plus the blinding image computed from the returned state; a*C(p)+b*C(q) == image(a*p+b*q) + image of the library-combined randomness (and == library commit of the combination when unblinded); commit(0) == identity; PST13 term-order independence; Ligero/Brakedown: metadata == public compute_dimensions and, for Ligero, == the documented shape computed in the harness (n = power of two at or above sqrt(ceil(2 len / t)), m = ceil(len / n)) with lengths at 2 len = t * 4^j and one to either side over-represented, root == Merkle root recomputed in the harness over Blake2s column hashes of the row-encoded matrix (Brakedown: rows re-encoded in the harness from the key's sparse matrices and dimensions read through a mirror struct, up to three recursion levels; Ligero: rows encoded by the harness itself - Horner evaluation at the powers of the primitive root of the smallest power-of-two domain with at least n_cols * rho_inv points - and compared with the library encoding; Brakedown: library `encode`), equal polynomials equal roots, different polynomials different roots." + DIST,
        "required_classes": ["naive-msm-plain", "naive-msm-shifted", "additivity", "zero-is-identity", "merkle-root-recomputed", "matrix-layout", "reed-solomon-rows", "documented-matrix-shape", "brakedown-rows-follow-the-key-matrices"],
        "technique": "runtime monitoring: reference-model oracle (naive MSM / independent Merkle recomputation) on commit outputs",
        "level_text": "Every commitment produced is compared with an independent recomputation from public key elements; the oracle shares no code with the library's MSM, window arithmetic or Merkle tree.",
        "design_ref": "5 (C08)",
        "assumptions": TRUST,
    },
})

PROPS.update({
    "C07": {
        "title": "Hiding",
        "rule": "KZG10, Marlin, Sonic, PST13, IPA, Hyrax; seeded polynomials of all shapes, all degree-bound settings, hiding bounds h in [1, supported]. Per case the monitor observes the caller's RNG through a counting wrapper and the returned commitment state: equal seeds => identical commitment and state; 16 fresh seeds => pairwise distinct commitments; bytes drawn from the caller's RNG >= (blinded parts)*(h+2)*32 (IPA / Hyrax: one scalar per blinded part / row); blinding polynomial has exactly h+2 non-zero pairwise-distinct coefficients (PST13: degree h+1, >= h+2 terms); commitment == naive image of the polynomial + naive image of the blinding coefficients under the public gamma powers (shifted window for Sonic); proof.random_v == sum_j xi_j * r_j(z) with xi_j decoded from the recorded prover sponge trace; different blinding => different proof; a hiding request without RNG is refused; an IPA hiding opening draws at least (supported + 2) scalars and none of its cross terms is the identity, whatever the degree of the opened polynomial; without hiding the commitment is deterministic, draws 0 bytes and equals the plain image." + DIST,
        "required_classes": ["equal-seeds-equal-output", "rng-accounting", "fresh-seeds-distinct-commitments", "missing-rng-refused", "non-hiding-deterministic", "blinding-polynomial-shape", "commitment-is-plain-plus-blinding", "proof-blinding-value", "proof-blinding-covers-the-key"],
        "technique": "runtime monitoring: RNG-accounting probe + structural oracle on returned commitment state + sponge-trace replay",
        "level_text": "Structure, freshness across seeds and RNG accounting of every blinded commitment and proof are decided from observations at the API boundary; statistical independence of the coefficients is not decidable by observation and is not claimed.",
        "design_ref": "5 (C07)",
        "assumptions": TRUST + ["a field element costs at least 32 bytes of RNG output (ark-ff UniformRand for 255-bit fields)"],
    },
    "C09": {
        "title": "Setup and trim",
        "rule": "Per scheme, seeded (max_degree | num_vars, supported_degree, hiding, enforced-bound list incl. unsorted / duplicated / empty / None): pairing-chain identities over every published power (randomised batching with per-index fallback) for G1, gamma-G1 and inverse G2 powers, prepared == raw elements; transparent generators (IPA, Hyrax) == independent re-derivation from the protocol seed, valid, distinct, non-identity, RNG-independent; multilinear PST: level sums pin one trapdoor point, G1/G2 tables agree, each level is the pairwise sum of the previous; trimmed keys element-wise equal to the stated windows of the parameters, shift elements == (max-d)-th (inverse) powers for exactly the sorted de-duplicated bounds; degree reports truthful (commit at supported succeeds, supported+1 refused); keys from two trims of one SRS interoperate; prepared tables are successive doublings and prepared commitments keep their parts for every commitment shape (with / without shifted part, identity elements as for the zero polynomial); out-of-range trim / setup requests refused." + DIST,
        "required_classes": ["srs-powers", "trim-faithful", "supported-degree-truthful", "trim-out-of-range-refused", "transparent-generators", "keys-interoperate", "prepared-tables"],
        "technique": "runtime monitoring: structural invariants of key material checked through pairing / group identities against the public parameters",
        "level_text": "Every element of every generated SRS and trimmed key is covered by an algebraic identity (pairing chains, sub-key equality, doubling tables); configurations are generated, not enumerated.",
        "design_ref": "5 (C09)",
        "assumptions": TRUST,
    },
})

PROPS.update({
    "C11": {
        "title": "Transcript lock-step",
        "rule": GEN + "Histories of 2..6 operations drawn from {open(k polys), batch_open(query set), open_combinations(LC)} proved on ONE recording sponge pre-seeded with arbitrary bytes and verified in the same order on an identically initialised sponge. Oracles: every check accepts; after every prefix the two sponge states are equal (two field elements squeezed from clones); a proof verified after an extra absorb on the verifier side, or an operation (statement + proof) verified at another position of the history, is not accepted when the operation involves a non-constant polynomial (else skipped; also skipped for linear-code proofs bound through a few column positions only: well-formedness off and fewer than 64 coefficients). Combinations of shapes a scheme may refuse (one degree-bounded polynomial plus a constant, twice a bounded polynomial) are proved at the end of the history: if the prover answers, the verifier must accept in lock-step. Marlin, Sonic, PST13 and IPA additionally run a three-operation history on Poseidon sponges over a DIFFERENT prime field (252 / 253 / 255 bit) - the schemes that absorb field elements cannot use such a sponge." + DIST,
        "required_classes": ["lock-step-accept", "lock-step-state", "different-prestate-rejected", "moved-proof-rejected", "lock-step-accept[foreign-field-sponge]", "lock-step-state[foreign-field-sponge]"],
        "technique": "runtime monitoring: operation histories on a recording sponge, state-equality oracle after every prefix + transcript-binding reject-oracle",
        "level_text": "History exploration (sequences, not single calls): the sponge is the only state that crosses calls, and it is caller-owned, so wrapping it observes every absorb/squeeze of both sides without touching the implementation.",
        "design_ref": "5 (C11)",
        "assumptions": TRUST + ["sponge state equality is decided by squeezing 2 field elements from clones (collision probability negligible)"],
    },
    "C12": {
        "title": "Serialization",
        "rule": GEN + "Every artefact produced along the transcript (universal parameters, committer key, verifier key, each commitment, each commitment state, batch proof, combination proof, labelled polynomial; KZG10 powers/keys/proofs/randomness; multilinear-PST keys/commitment/proof) is serialized compressed and uncompressed: serialized_size == bytes written; deserialization with and without validation consumes all bytes and re-serializes identically; proper prefixes (all for <= 600 bytes, 48 sampled cut points otherwise) fail. Decisions of batch_check, check and check_combinations on an honest and on a tampered claim are equal for original and deserialized (vk, commitments, proofs); deserialized parameters trim to byte-identical keys that verify; deserialized committer key and states produce accepted proofs; combination proofs additionally with every shape of the optional evaluation list (None, empty, 1, 3 entries); one case round-trips KZG10 universal parameters with more than 2^16 powers (the largest size explored), two cases PST13 keys with 350 / 700 variables (verifier keys beyond 64 KiB)." + DIST,
        "required_classes": ["roundtrip[universal-params]", "roundtrip[committer-key]", "roundtrip[verifier-key]", "roundtrip[commitment]", "roundtrip[commitment-state]", "roundtrip[batch-proof]", "decision-preserved[batch_check]", "decision-preserved[check]", "trim-of-deserialized-params", "batch-lc-proof"],
        "technique": "runtime monitoring: round-trip laws + differential verification decisions between original and deserialized artefacts",
        "level_text": "Round-trip and size laws on every artefact of every generated transcript plus behavioural equivalence of the reloaded values in all three verification entry points (which is what exposes wrongly rebuilt prepared elements).",
        "design_ref": "5 (C12)",
        "assumptions": TRUST,
    },
    "C13": {
        "title": "Column openings of the code-based schemes",
        "rule": "(a0) distances (53-bit rationals) whose exact quotient (lambda+1)/-log2(1-d/2) lies 1e-6..1e-10 above or below an integer k: the returned t must be the exact minimum (quotients within 1e-10 of an integer are tallied separately: the library computes in f64, finding F14). (a) calculate_t (hook H1) on seeded (lambda in 1..256, distance (rho-1)/rho for rho=2..16 and Brakedown's 61000/1521000, n: small, geometric ladder to 2^41, near powers of 256, and near the field-size boundary lambda+log2 n ~ bits) over four fields (252/253/255/381 bits), compared with an exact big-integer evaluation of 2(1-d/2)^t + n/|F| <= 2^-lambda at t and t-1 with the true modulus (and, for classification only, with |F|:=2^bits). (b) honest proofs of univariate / multilinear Ligero (sec_param x rho_inv grid through the public constructor) and Brakedown, degrees up to 6000 / 13 variables: column and path count == t, leaf indices == the harness's derivation from the recorded squeeze_bytes events, inside the codeword, byte width covers the codeword, every column authenticated against the root by an independent path computation; verifier side: on an honest proof (true value) the later copy of a column at a position opened twice is shifted inside the kernel of the linear tests (b, and r with well-formedness), path kept - not accepted. (c) reported distance == constructor arguments. (d) encode linear, zero-preserving, of the declared length. (e) parameter sets for which no t exists are refused - at commit, and at open / check when a proof made under usable parameters meets a key with an unreachable security level (codewords shorter than lambda included)." + DIST,
        "required_classes": ["calculate-t-minimal", "column-count", "column-positions", "columns-authenticated", "encode-linear", "distance-reported", "duplicate-position-authenticated", "calculate-t-minimal[quotient-near-an-integer]", "unusable-parameters-refused[open-check]"],
        "technique": "runtime monitoring: exact-rational oracle on a hooked pure function + structural monitor over mirrored proofs and the recorded sponge trace",
        "level_text": "The floating-point column-count formula is compared with exact arithmetic on 10^4 (quick) to 10^6 (thorough) parameter points including the numerically critical region, and every generated proof is checked to carry exactly that many authenticated, transcript-derived columns.",
        "design_ref": "5 (C13)",
        "assumptions": TRUST,
    },
})

PROPS.update({
    "C03": {
        "title": "Evaluation binding against crafted and malformed proofs",
        "rule": "Finite attack catalogue, every entry a case class with a false claimed value (recomputed truth): (generic, all 8 trait schemes) library prover run on (q, state_q) against commitment(p); honest proof for (p, z') replayed at z; honest proof for commitment(q) presented for commitment(p); empty batch proof list. (Marlin/Sonic/PST13) each proof component replaced (random / identity witness, random / dropped blinding value), PST13 witness list shorter / longer / empty. (Hyrax) inner proof list empty / truncated, z stretched / shortened, com_eval replaced by a fresh commitment to the claimed value, z_d changed. (IPA, check and batch_check) rounds missing / extra random / uneven, c and final key replaced, and the identity-padding attack: the harness's own IPA prover run on the key padded with identity elements to 2^(log d + k), k=1,2, with the extra coefficient chosen so that the inner product equals the false value. (Ligero/Brakedown, through mirror structs, with the verifier transcript simulated to derive the opened indices) opening vector altered; opening vector and well-formedness vector altered by +delta / -delta (cancelling in the sum of the two column tests); proof consistent with another matrix (its own paths / honest paths of the committed tree / altered sibling); opening and well-formedness vectors stretched to the codeword length by solving E'(v')[j]=E(v)[j] for all j with Gaussian elimination over the public encode; well-formedness absent; columns repeated / shifted / truncated; paths swapped. (Hyrax) the proofs of two different polynomials of one opening swapped. (PST13) the library prover run on the polynomial with two variables exchanged against the original commitment. (univariate Ligero, 2100..2600 coefficients) adaptive window forgery: opening consistent with p + e where e vanishes on the first 256 Reed-Solomon points, the positions answered being read off the squeezed bytes of the library verifier itself on a draft proof. (Marlin, Sonic, PST13, IPA batch_check) honest batch proof over 3..4 point labels with a pair of false values (d, -d*xi_1/xi_2) on two point labels, one pair per pair of labels. Sanity classes confirm that harness-built honest proofs are accepted." + DIST,
        "required_classes": ["foreign-state-proof", "replayed-other-point", "foreign-commitment-proof", "rounds-extra-identity-padding", "stretched-opening-vector", "inner-proof-list-empty", "opening-vector-altered", "harness-built-honest-proof-accepted", "harness-prover-sanity", "proof-elements-swapped", "honest-proof-cancelling-values[across-points]", "opening-and-well-formedness-vectors-cancelling", "positions-outside-a-window-never-opened", "variables-exchanged-polynomial"],
        "technique": "runtime monitoring: adversarial workload (attack catalogue incl. harness-side provers and linear-system solving), reject-oracle",
        "level_text": "A catalogue, not a proof of soundness: held on K attacks of the listed classes. It reaches what tests cannot because the proofs are not produced by the honest prover: the harness rebuilds crate-private proof types through their serialization, runs its own IPA prover and solves for stretched Ligero vectors.",
        "design_ref": "5 (C03)",
        "assumptions": TRUST + ["runtime monitoring cannot quantify over all adversaries; only the listed attack classes are covered"],
    },
})

PROPS.update({
    "C14": {
        "title": "Streaming KZG",
        "rule": "(time-vs-space) seeded degrees 0..256 of all shapes, key sizes >= degree, MSM buffers {1,2,3,7,64,2^20}, 1..8 distinct points: commitment, evaluation, proof of the space prover == time prover == truth; multi-point proof == naive commitment to the quotient by the vanishing polynomial, remainder == naive remainder; verifier (built from either key) accepts the true values and not value+1. (folding-iterators) ALL 130 x 8 cells (length 1..130) x (0..7 challenges): FoldedPolynomialStream values and len() and FoldedPolynomialTree per-level sequences and depth == naive even/odd folding with zero padding. (folding-commit-open; one case in twelve with keys of one or two powers) the folded stream handed to the space committer / prover == time prover on the explicitly folded polynomial; commit_folding == per-level time commitments; open_folding proof == sum eta_i * commitment(quotient_i), remainders == naive remainders. A third of the multi-point sets are structured so that the vanishing polynomial has zero coefficients between its ends ({a,-a}, three points summing to zero, three with zero pair sum, cosets of roots of unity). (batch-and-keys) 1..4 polynomials of different lengths, eta in {0, 1, 128-bit, random}: time batch_commit == space commit per polynomial == naive MSM; batch_open_multi_points == naive commitment to the quotient of sum eta^i p_i == sum eta^i * (space-prover proof of p_i), accepted by verify_multi_points with the true values and not with one value+1; CommitterKeyStream::as_committer_key(d) == the first d published powers; index_by(indices)[i] == sum of the powers g_j with indices[j] == i (repeated and missing indices, shorter index lists)." + DIST,
        "required_classes": ["commit-time-equals-space", "open-time-equals-space", "multi-point-time-equals-space", "space-proof-verifies", "folded-stream", "folded-tree", "folded-stream-commit", "commit-folding", "open-folding"],
        "technique": "runtime monitoring: differential oracle (space vs time prover) + naive reference model of folding and polynomial division",
        "level_text": "Differential and reference-model monitoring over the index-arithmetic-heavy streaming code; the length x depth grid of the folding iterators is enumerated completely in every run.",
        "design_ref": "5 (C14)",
        "assumptions": TRUST,
    },
    "C15": {
        "title": "PST13 parameters",
        "rule": "Grid cells (num_vars, max_degree): quick [1,5]^2 plus three cells with max degree 6 and the wide cells (66,1), (130,1) (thorough also (65,2)), thorough the complete [1,6]^2 grid (exhaustive for the combinatorial part), random supported_degree <= max_degree per visit. Per cell: published key set == set of all exponent vectors of total degree <= D (count C(n+D,D), no missing / extra / duplicate); e(G[m*x_i],H) == e(G[m],beta_i H) for every (m,i) with deg(m*x_i) <= D (randomised batching per variable, per-pair fallback); trimmed key == monomials of degree <= supported with identical elements; per-variable G2 elements and the G1 elements of distinct monomials pairwise different (independent trapdoors); dense, sparse, top-degree-only and single-monomial mixed polynomials (with and without hiding) commit, open and verify, and value+1 is not accepted; four polynomials (zero, dense, constant, sparse, rotated through the list positions, hiding mixed) opened together at one point verify, one value+1 does not." + DIST,
        "required_classes": ["monomial-set", "trapdoor-consistency", "trim-degree-filter", "mixed-monomial-opens", "mixed-monomial-binding", "polynomial-list-opens", "polynomial-list-binding", "trapdoors-independent"],
        "technique": "runtime monitoring: structural invariant of the SRS (set equality + pairing identities) + end-to-end oracle on mixed-monomial workloads",
        "level_text": "The multiset enumeration behind the parameters is checked against an independent enumeration on the whole small grid, and the quotient decomposition is exercised on genuinely multivariate polynomials the suite never generates.",
        "design_ref": "5 (C15)",
        "assumptions": TRUST,
    },
})

PROPS.update({
    "C17": {
        "title": "Out-of-domain requests are refused",
        "rule": GEN + "Every generated in-domain pipeline must not be refused or abort (setup, trim, commit, batch_open, batch_check). Around it, out-of-domain requests with magnitudes at the boundary (supported+1, supported+2, max+1, 0): query for an unknown polynomial (batch_open, batch_check, open_combinations), missing evaluation, missing commitment, degree beyond the key (dense, with low-order zeros, single top monomial), hiding beyond the key / zero (where declared unsupported) / without RNG, bound below the degree / beyond the key (commit and verifier side), zero degree / zero or missing variables at setup, wrong number of variables (Hyrax, Brakedown, multilinear PST: larger and smaller), point of the wrong length, mismatched labels (Hyrax, IPA), IPA `open` with a polynomial whose (valid) degree bound differs from the one recorded on its commitment (other value, present on one side only), a PST13 commitment presented with a degree bound and a degree-bound part (PST13 supports none), KZG10 direct API incl. batch_check with every combination of its four lists differing in length by one honest entry. Oracle: the outcome is Err or panic (for verification calls: not accept); which of the two is reported in observed_counters, not judged." + DIST,
        "required_classes": ["in-domain-no-abort", "unknown-polynomial", "missing-evaluation", "degree-beyond-key", "hiding-beyond-key", "hiding-without-rng", "bound-beyond-key", "setup-degree-zero", "wrong-num-vars[larger]", "bound-differs-from-commitment", "wrong-num-vars[smaller]", "point-length-mismatch", "mismatched-labels", "list-lengths-differ", "bound-on-scheme-without-bounds"],
        "technique": "runtime monitoring: boundary-magnitude request injection with outcome classification (Ok / Err / panic) via catch_unwind",
        "level_text": "Each refusal boundary of each scheme is probed from both sides on generated configurations; the in-domain side reuses the honest-workload generator so that a refusal introduced for valid inputs is caught as well.",
        "design_ref": "5 (C17)",
        "assumptions": TRUST + ["domain table of DESIGN.md section 4 (lenient readings: KZG-family hiding bound 0 and Marlin bounds in (supported, max] are not required to be refused)"],
    },
})

PROPS.update({
    "C19": {
        "title": "Succinctness",
        "rule": "Sizes are measured on the canonical compressed serialization (and compared with serialized_size) along geometric ladders: degree 2..256 (Marlin, Sonic, streaming; IPA incl. non-powers of two), (1..5 variables) x (degree 1..3) for PST13, 1..10 variables multilinear PST, 0..10 variables Hyrax, degree 3..16383 / 2..14 variables for Ligero / Brakedown; random degree-bound and hiding settings, 1..3 polynomials, 1..3 points. Laws (exact byte counts): KZG family constant commitment and per-point proof, batch proof == 8 + points * proof, independent of the number of polynomials; PST13 / multilinear PST one group element per variable; IPA 2*log2(d+1) round elements for the REQUESTED supported degree d (universal parameters up to four times larger, tight bound listed as enforced or not); Hyrax 2^(n/2) row commitments and z entries per polynomial; Ligero / Brakedown commitment 64 bytes and proof <= 4 x min over power-of-two row counts of a byte-exact model of the proof (t paths, t columns, opening vectors) -- evaluated separately where t is below the codeword length and where it is capped by it. Combination proofs (Marlin, Sonic, PST13 - incl. 0*h + p and h + p - h, which are unblinded - and IPA open_combinations over mixed hiding / non-hiding polynomials, equations listed in both orders, own and shared point labels): every per-point proof has the single-opening size, the blinding part present exactly when a hiding polynomial takes part at that point." + DIST,
        "required_classes": ["constant-size", "one-element-per-variable", "two-elements-per-round", "square-root-size", "proof-within-4x-of-best-shape[t-below-codeword-length]", "combination-proof-size"],
        "technique": "runtime monitoring: size-law oracle over serialized artefacts along geometric size ladders",
        "level_text": "Every law is an exact byte count (or, for the code-based schemes, a bound against a byte-exact model minimised over matrix shapes) evaluated on real serialized commitments and proofs across three orders of magnitude of polynomial size.",
        "design_ref": "5 (C19)",
        "assumptions": TRUST + ["compressed point sizes: BLS12-381 G1 48, G2 96, JubJub 32, scalars 32 bytes"],
    },
})

PROPS.update({
    "C18": {
        "title": "Schedule and feature independence",
        "rule": GEN + "Each case fixes a 32-byte seed from which ALL randomness of one complete execution derives (setup, trim, polynomials, commitment blinding, query set, prover and verifier RNG). The execution is repeated inside this process under rayon pools of 1, 2, 3, 16 and three (thorough: six) further sizes drawn per case from 4..24 threads, 3 (quick) / 8 (thorough) more times at 16 threads and, in the thorough tier, under a 64-thread oversubscribed pool while 8 spinning threads load the machine; the driver additionally runs the same cases with the harness built WITHOUT the library's `parallel` feature. Compared: SHA-256 of the canonical serialization of universal parameters, committer / verifier key, every commitment and commitment state, batch proof, single proof, and the decisions of batch_check (true and false claim) and check. Oracle: all digests of all executions equal; cross-build digests equal key by key. Additional `<scheme>/large` cases run the same pipeline on polynomials with 1024..2100 (thorough ..4200) coefficients (boundary sizes 1023, 1024, 1025, 2047, 2048 over-represented), 10 / 12 variables, PST13 with 4 variables of degree 11, under pools of 1, 2, 3, 5, 7, 16 threads, because size thresholds of parallel code paths lie far above the small scenarios. One case repeats Sonic `setup` for more than 2^14 powers under one thread and two drawn pool sizes. A case is one seed; non-trivial = at least 3 executions compared in the parallel build." + DIST,
        "required_classes": ["same-digests-across-thread-counts"],
        "technique": "runtime monitoring: differential determinism monitor across rayon pool sizes, repetitions, load, and the non-parallel build",
        "level_text": "Schedule independence is decided by observing many executions of identical seeded workloads under different worker counts and builds and comparing digests of everything the library returns; this is what a race detector cannot say for a data-race-free (forbid(unsafe)) crate whose possible nondeterminism lies in reduction order or hidden thread-local RNGs.",
        "design_ref": "5 (C18)",
        "assumptions": TRUST + ["rayon work-stealing under 1..64 workers with and without CPU contention samples the schedules; no schedule enumeration is possible at this level"],
        "nopar": True,
        "rayon_threads": 0,
        "max_shards": 4,
    },
})

PROPS.update({
    "C10": {
        "title": "Verifiers decide exactly the published relation",
        "rule": GEN + "For each accepting single-point transcript (1..3 polynomials with bounds / hiding) the library verifier and an independent reference verifier (written from the published relation: KZG pairing equation and its Marlin / Sonic / PST13 / multilinear-PST / streaming forms; IPA round-commitment and final-key equations via the harness's own IPA code; Hyrax equations (13), (14) plus 'the evaluation commitment opens to the claimed value'; Ligero / Brakedown transcript-derived indices, independent Merkle authentication, column and well-formedness consistency, <v,a> = value, shape constraints) are run on clones of one recording sponge, on: the honest transcript; every single-component substitution (each commitment part, degree-bound label, value, point coordinate, every proof field / element incl. every IPA round element and Merkle sibling, every verifier-key element with its prepared twin); compensated double faults that keep the relation true (C+dG with v+d; W+wG with C+(w/xi)(beta G - zG)); linear codes: leaf index replaced by out-of-range aliases (q + k*lcm(n, tree width), q + n), the later copy of a column at a position opened twice shifted inside the kernel of the linear tests. Oracle: library accepts <=> reference relation holds (Err / panic count as not accepting)." + DIST,
        "required_classes": ["honest-satisfies-relation", "compensated-fault-agrees", "single-fault-agrees[value]", "single-fault-agrees[commitment]", "single-fault-agrees[point]", "single-fault-agrees[proof-w]", "single-fault-agrees[vk-h]", "single-fault-agrees[proof-path-leaf-index-aliased]"],
        "technique": "runtime monitoring: differential oracle against independent reference verifiers sharing only the recorded transcript",
        "level_text": "Equality of two decision procedures over the whole single-fault neighbourhood of generated honest transcripts (20-60 substitutions per transcript) plus relation-preserving double faults, which exercises the accept side beyond honest proofs.",
        "design_ref": "5 (C10)",
        "assumptions": TRUST + ["the reference verifiers are models; disagreements are triaged before being reported (two model bugs were found and fixed this way, see DESIGN.md section 7)"],
    },
})

ALL_IDS = ["C%02d" % i for i in range(1, 20)]
