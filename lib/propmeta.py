"""Per-property metadata shared by the driver (./check) and the MANIFEST generator."""

TRUST = [
    "arkworks algebra (fields, curves, pairings, FFT, MSM), Poseidon sponge and Merkle tree crates are trusted",
    "harness oracles are independent re-computations written from the schemes' definitions; probabilistic oracles err with probability <= 2^-120",
    "verdicts are about the executions produced: held on K cases of the listed classes, never 'verified'",
]

PROPS = {
    "C16": {
        "title": "Public algebraic helpers satisfy their defining identities",
        "rule": "seeded random cases: (lc-arith) op sequences of length 1..12 over += -= *= with (coeff,lc), lc, constants on LinearCombination, value compared after every op with a shadow value under a random assignment; (evaluate-query-set) random labelled univariate / multilinear polynomial sets and query sets with shared labels and point values, compared with independent Horner / hypercube evaluation; (succinct-check-poly) k=0..10 challenges incl. 0/1, evaluate(z) vs Horner(compute_coeffs) vs the product definition. Distinct = distinct (scheme, class, descriptor) SHA-256 hashes; every case is non-trivial (the oracle has no precondition).",
        "required_classes": ["lc-arith", "evaluate-query-set", "succinct-check-poly"],
        "technique": "runtime monitoring: shadow-value oracle over random operation sequences + reference evaluators",
        "level_text": "Randomised differential monitoring of the public helper API against independent reference computations; 10^5 (quick) to 3*10^6 (thorough) oracle evaluations per run. Adequate because the helpers are pure functions with tiny state, so diverse random inputs reach every branch (each operator, One/label terms, zero/one coefficients, k=0..10).",
        "design_ref": "5 (C16)",
        "assumptions": TRUST,
    },
}

ALL_IDS = ["C%02d" % i for i in range(1, 20)]
