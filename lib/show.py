#!/usr/bin/env python3
"""Pretty-print a pcmon shard summary."""
import json, sys
d = json.load(open(sys.argv[1]))
print("cases", d["cases_run"], "distinct", d["distinct"], "wall", round(d["wall_s"], 1))
for t in d["tallies"]:
    print("  %-12s %-34s held=%-6d viol=%-4d skipped=%s" % (t["scheme"], t["class"], t["held"], t["violated"], t["skipped"]))
sigs = {}
for v in d["violations"]:
    sigs.setdefault(v["signature"], []).append(v)
for s, vs in sigs.items():
    print("VIOL", s, len(vs), json.dumps(vs[0]["detail"])[:300])
    if len(sys.argv) > 2:
        print(json.dumps(vs[0]["case"])[:1500])
for h in d["harness_errors"][:5]:
    print("HARNESS-ERROR", h)
print("counters", {k: v for k, v in d["counters"].items()})
