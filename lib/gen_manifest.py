#!/usr/bin/env python3
"""Regenerate /verif/MANIFEST.json from lib/propmeta.py."""
import json, os, subprocess, sys
sys.path.insert(0, os.path.dirname(os.path.abspath(__file__)))
from propmeta import PROPS, ALL_IDS

def hook_commits():
    try:
        out = subprocess.run(["git", "-C", "/repo", "log", "--format=%H %s"], capture_output=True, text=True).stdout
        return [l.split()[0] for l in out.splitlines() if "verif-hooks" in l]
    except Exception:
        return []

checks = []
for pid in ALL_IDS:
    if pid not in PROPS:
        continue
    m = PROPS[pid]
    checks.append({
        "property_id": pid,
        "quick_cmd": "./check %s quick" % pid,
        "thorough_cmd": "./check %s thorough" % pid,
        "evidence_file": "/verif/evidence/%s.json" % pid,
        "replay_cmd_template": "./check %s --replay {path}" % pid,
        "engine": "pcmon",
        "level_claimed": {"category": "exploration", "text": m["level_text"], "design_ref": "DESIGN.md section " + m["design_ref"]},
        "level_note": "; ".join(m.get("assumptions", [])) + (" | " + m["level_note_extra"] if m.get("level_note_extra") else ""),
        "technique": m["technique"],
    })
na = [{"property_id": pid, "reason": "monitor not built yet in this round; design in DESIGN.md section 5 (%s)" % pid}
      for pid in ALL_IDS if pid not in PROPS]
man = {
    "version": 1,
    "setup_cmd": "./check --setup",
    "hooks": {
        "guard": "cargo feature `verif-hooks` of ark-poly-commit (off by default)",
        "enable": "harness/Cargo.toml depends on ark-poly-commit by path /repo/poly-commit with features [std, verif-hooks] (+ parallel in the default harness variant); every check runs `cargo build --release --offline` of the harness first, which rebuilds the library from /repo's working tree",
        "baseline_off_cmd": "cd /repo && cargo nextest run --workspace --no-fail-fast --test-threads 8 --offline || cargo test --workspace --no-fail-fast --offline",
        "source_commits": hook_commits(),
        "add_only": True,
    },
    "engines": [{
        "name": "pcmon",
        "path": "/verif/harness",
        "serves_properties": [c["property_id"] for c in checks],
        "kind_free_text": "Rust harness linking the real ark-poly-commit from /repo: seeded hostile workload generators, boundary probes (recording sponge, monitoring RNG, call outcome capture via catch_unwind), independent reference oracles, sharded over 16 processes by the python driver ./check which merges per-shard summaries, applies known_findings.json and writes evidence",
    }],
    "checks": checks,
    "notes": "Technique family: runtime monitoring. All verdicts three-valued (exit 0 held / exit 1 VIOLATION / exit 2 INCONCLUSIVE). Known genuine defects are listed in /verif/known_findings.json.",
    "not_applicable": na,
}
json.dump(man, open("/verif/MANIFEST.json", "w"), indent=1)
print("claimed:", [c["property_id"] for c in checks], "not claimed:", [n["property_id"] for n in na])
