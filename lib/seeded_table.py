#!/usr/bin/env python3
"""Render the table of seeded changes for DESIGN.md section 7.2 from seeded/*/meta.json and seeded/RESULTS.json."""
import json, glob, os, re
rows = []
res = json.load(open("/verif/seeded/RESULTS.json"))
for d in sorted(glob.glob("/verif/seeded/C*")):
    sid = os.path.basename(d)
    m = json.load(open(os.path.join(d, "meta.json")))
    summ = (m.get("summary") or "")
    if isinstance(summ, list): summ = " ".join(summ)
    summ = re.sub(r"\s+", " ", str(summ))[:230]
    needs = m.get("needs_to_manifest") or ""
    if isinstance(needs, list): needs = "; ".join(map(str, needs))
    needs = re.sub(r"\s+", " ", str(needs))[:200]
    caught = []
    for chk, r in sorted(res.get(sid, {}).items()):
        cl = sorted({s["signature"].split("|")[-1] for s in r["new_violation_signatures"]})
        if r["exit"] == 1:
            caught.append("**%s**: %s" % (chk, ", ".join(cl[:4]) + (" ..." if len(cl) > 4 else "")))
        else:
            caught.append("%s: exit %s (not caught)" % (chk, r["exit"]))
    rows.append("| %s | %s | %s | %s | %s |" % (sid, m.get("property"), summ.replace("|", "/"), needs.replace("|", "/"), "<br>".join(caught) or "not run"))
print("| id | property | change (author's summary) | needs to manifest | registered checks run against it (quick tier) |")
print("|---|---|---|---|---|")
print("\n".join(rows))
